"""T1 tables for C05: the constants of the rdflib source that the N-Triples/N-Quads writer model reads.

Written to coq/Gen/Tables_c05.v on every run; coq/Grammar/Proofs.v proves over these definitions (and
pins the two regular expressions textually), so an edit of the constants in the tree under test either
re-proves or breaks the build."""
from __future__ import annotations


def _cs(s: str) -> str:
    return "[" + "; ".join(f"{ord(c)}%N" for c in s) + "]"


def render(rdflib) -> str:
    from rdflib import term
    from rdflib.graph import DATASET_DEFAULT_GRAPH_ID
    from rdflib.plugins.parsers import ntriples
    from rdflib.compat import _string_escape_map, _turtle_escape_pattern

    out = []
    out.append("(* rdflib.term._invalid_uri_chars *)")
    out.append(f"Definition invalid_uri_chars : list N := {_cs(term._invalid_uri_chars)}.")
    out.append("(* rdflib.term._lang_tag_regex.pattern *)")
    out.append(f"Definition lang_tag_regex_src : list N := {_cs(term._lang_tag_regex.pattern)}.")
    out.append("(* str(rdflib.graph.DATASET_DEFAULT_GRAPH_ID), and whether it is a URIRef *)")
    out.append(f"Definition default_graph_id : list N := {_cs(str(DATASET_DEFAULT_GRAPH_ID))}.")
    out.append("Definition default_graph_id_is_uriref : bool := "
               + ("true" if type(DATASET_DEFAULT_GRAPH_ID).__name__ == "URIRef" else "false") + ".")
    out.append("(* rdflib.plugins.parsers.ntriples: the regular expressions of the line reader *)")
    for name in ("uriref", "literal", "litinfo"):
        out.append(f"Definition nt_{name}_src : list N := {_cs(getattr(ntriples, name))}.")
    for name in ("r_wspace", "r_wspaces", "r_tail", "r_nodeid", "r_line"):
        out.append(f"Definition nt_{name}_src : list N := {_cs(getattr(ntriples, name).pattern)}.")
    out.append(f"Definition turtle_escape_pattern_src : list N := {_cs(_turtle_escape_pattern.pattern)}.")
    out.append("(* rdflib.compat._string_escape_map as (escape letter, code point) *)")
    pairs = "; ".join(f"({ord(k)}%N, {ord(v)}%N)" for k, v in _string_escape_map.items())
    out.append(f"Definition string_escape_map : list (N * N) := [{pairs}].")
    import re

    out.append("(* Python: the characters matched by \\s in a str pattern, and those for which str.isspace() holds *)")
    sp = [c for c in range(0x110000) if re.match(r"\s", chr(c))]
    isp = [c for c in range(0x110000) if chr(c).isspace()]
    out.append("Definition py_re_space_chars : list N := [" + "; ".join(f"{c}%N" for c in sp) + "].")
    out.append("Definition py_isspace_chars : list N := [" + "; ".join(f"{c}%N" for c in isp) + "].")
    out.append(f"Definition nt_bufsiz : N := {int(ntriples.bufsiz)}%N.")
    out.append("Definition nt_validate : bool := " + ("true" if ntriples.validate else "false") + ".")
    from rdflib.plugins.parsers import notation3

    out.append("(* rdflib.plugins.parsers.notation3._uri_parts: pattern and flags (re.S) *)")
    out.append(f"Definition uri_parts_src : list N := {_cs(notation3._uri_parts.pattern)}.")
    out.append("Definition uri_parts_dotall : bool := " + ("true" if notation3._uri_parts.flags & re.S else "false") + ".")
    # behaviour of SinkParser.strconst on backslash + one ASCII letter (the two string constants are inline in the source)
    from rdflib import Graph as _G
    sp = notation3.SinkParser(notation3.RDFSink(_G()), baseURI="http://e/", turtle=True)
    pairs = []
    for c in range(128):
        if chr(c) in "uU":
            continue
        try:
            j, v = sp.strconst("\\" + chr(c) + '"', 0, '"')
            if j == 3 and len(v) == 1:
                pairs.append((c, ord(v)))
        except Exception:  # noqa: BLE001
            pass
    out.append("(* SinkParser.strconst: backslash + letter -> character (probed for every ASCII letter but u, U) *)")
    out.append("Definition n3_echar_table : list (N * N) := [" + "; ".join(f"({a}%N, {b}%N)" for a, b in pairs) + "].")
    out.append("(* notation3._notQNameChars, escapeChars (sorted) *)")
    out.append(f"Definition n3_notqname_chars : list N := {_cs(''.join(sorted(notation3._notQNameChars)))}.")
    out.append(f"Definition n3_escape_chars : list N := {_cs(''.join(sorted(notation3.escapeChars)))}.")
    out.append(f"Definition n3_notname_extra : list N := {_cs(''.join(sorted(notation3._notNameChars - notation3._notQNameChars)))}.")
    out.append(f"Definition n3_number_plus_chars : list N := {_cs(''.join(sorted(notation3.numberCharsPlus)))}.")
    out.append(f"Definition n3_interesting_src : list N := {_cs(notation3.interesting.pattern)}.")
    out.append(f"Definition n3_unicodeEscape4_src : list N := {_cs(notation3.unicodeEscape4.pattern)}.")
    out.append(f"Definition n3_unicodeEscape8_src : list N := {_cs(notation3.unicodeEscape8.pattern)}.")
    return "\n".join(out) + "\n"
