"""C04 - SPARQL graph patterns: rdflib's top-down evaluator (evaluate.py) against
coq/Sparql/EvalTD.v (model) and coq/Sparql/EvalBU.v (SPARQL 1.1 section 18, the
specification).

A case is a dataset (or a plain graph), a query form and a query AST.  The query
text is rendered from the AST and sent to Graph.query / Dataset.query of the
rdflib under test.  The algebra the model evaluates is *rdflib's own translation*
(prepareQuery(text).algebra, a CompValue tree) converted node by node into the
Coq type [alg] (fails closed on anything not modelled); independently the AST is
translated by the harness following section 18.2 and compared with rdflib's
tree (shape, filters, scoping marks aside), so that a defect of algebra.py is
seen as a disagreement too."""
from __future__ import annotations

import copy
import re
import warnings
from collections import OrderedDict

from .core import Suite, cN, cbool, clist, copt, ctuple, import_rdflib

rdflib = import_rdflib()
warnings.filterwarnings("ignore", category=DeprecationWarning)
from rdflib import BNode, Dataset, Graph, Literal, URIRef, Variable  # noqa: E402
from rdflib.namespace import XSD  # noqa: E402
from rdflib.plugins.sparql import prepareQuery  # noqa: E402
from rdflib.plugins.sparql.parserutils import CompValue  # noqa: E402

# ---------------------------------------------------------------- vocabulary
# 1..9 IRIs, 10+z integer z, 20/21 false/true  (coq/Sparql/Algebra.v: kind_of)
IRIS = {1: "a", 2: "b", 3: "c", 4: "p", 5: "q"}


def term(i):
    if i in IRIS:
        return URIRef("http://e/" + IRIS[i])
    if 10 <= i < 20:
        return Literal(i - 10)
    if i == 20:
        return Literal(False)
    if i == 21:
        return Literal(True)
    raise ValueError(i)


def term_id(t):
    if isinstance(t, URIRef):
        s = str.__str__(t)
        for k, v in IRIS.items():
            if s == "http://e/" + v:
                return k
        return 9
    if isinstance(t, Literal):
        dt = None if t.datatype is None else str.__str__(t.datatype)
        lex = str.__str__(t)
        if dt == str.__str__(XSD.integer) and lex.isdigit() and int(lex) < 10 and str(int(lex)) == lex:
            return 10 + int(lex)
        if dt == str.__str__(XSD.boolean) and lex in ("true", "false"):
            return 21 if lex == "true" else 20
        return 8
    return 7


def var_id(v):
    s = str.__str__(v)
    if s.startswith("v") and s[1:].isdigit():
        return int(s[1:])
    raise Unmodelled("variable " + s)


class Unmodelled(Exception):
    pass


# ---------------------------------------------------------------- AST -> text
# tv: positive int = term id, negative int = variable number
def r_tv(x):
    if x < 0:
        return f"?v{-x}"
    if x in IRIS:
        return f"<http://e/{IRIS[x]}>"
    if 10 <= x < 20:
        return str(x - 10)
    return "true" if x == 21 else "false"


def r_expr(e):
    k = e[0]
    if k == "var":
        return f"?v{e[1]}"
    if k == "con":
        return r_tv(e[1])
    if k == "cmp":
        return f"({r_expr(e[2])} {e[1]} {r_expr(e[3])})"
    if k == "and":
        return f"({r_expr(e[1])} && {r_expr(e[2])})"
    if k == "or":
        return f"({r_expr(e[1])} || {r_expr(e[2])})"
    if k == "not":
        return f"(!{r_expr(e[1])})"
    if k == "bound":
        return f"BOUND(?v{e[1]})"
    if k == "exists":
        return ("EXISTS " if e[1] else "NOT EXISTS ") + r_group(e[2])
    if k == "in":
        return f"({r_expr(e[2])} {'IN' if e[1] else 'NOT IN'} (" + ", ".join(r_tv(c) for c in e[3]) + "))"
    if k == "coalesce":
        return f"COALESCE({r_expr(e[1])}, {r_expr(e[2])})"
    if k == "if":
        return f"IF({r_expr(e[1])}, {r_expr(e[2])}, {r_expr(e[3])})"
    raise ValueError(e)


def r_elem(x):
    k = x[0]
    if k == "bgp":
        return " ".join(f"{r_tv(s)} {r_tv(p)} {r_tv(o)} ." for s, p, o in x[1])
    if k == "opt":
        return "OPTIONAL " + r_group(x[1])
    if k == "minus":
        return "MINUS " + r_group(x[1])
    if k == "union":
        return " UNION ".join(r_group(g) for g in x[1:])
    if k == "graph":
        return f"GRAPH {r_tv(x[1])} " + r_group(x[2])
    if k == "filter":
        return f"FILTER({r_expr(x[1])})" if x[1][0] != "exists" else "FILTER " + r_expr(x[1])
    if k == "bind":
        return f"BIND({r_expr(x[1])} AS ?v{x[2]})"
    if k == "values":
        vs, rows = x[1], x[2]
        return ("VALUES (" + " ".join(f"?v{v}" for v in vs) + ") { "
                + " ".join("(" + " ".join("UNDEF" if t is None else r_tv(t) for t in r) + ")" for r in rows) + " }")
    if k == "sub":
        proj = " ".join(f"?v{v}" for v in x[2]) if x[2] else "*"
        off = f" OFFSET {x[4]}" if len(x) > 4 and x[4] else ""
        return "{ SELECT " + ("DISTINCT " if x[1] else "") + proj + " WHERE " + r_group(x[3]) + off + " }"
    if k == "group":
        return r_group(x)
    raise ValueError(x)


def r_group(g):
    return "{ " + " ".join(r_elem(x) for x in g[1]) + " }"


def render(case):
    body = r_group(case["q"])
    f = case["form"]
    if f == "select":
        proj = " ".join(f"?v{v}" for v in case["proj"]) if case.get("proj") else "*"
        mod = (case.get("modifier") + " ") if case.get("modifier") else ""
        return f"SELECT {mod}{proj} WHERE {body}"
    if f == "ask":
        return f"ASK {body}"
    if f == "star":
        # a template whose triples share one blank node: one fresh node per solution
        tpl = " ".join(f"_:b {r_tv(p)} ?v{v} ." for p, v in case["star"])
        return f"CONSTRUCT {{ {tpl} }} WHERE {body}"
    tpl = " ".join(f"{r_tv(s)} {r_tv(p)} {r_tv(o)} ." for s, p, o in case["template"])
    return f"CONSTRUCT {{ {tpl} }} WHERE {body}"


# ---------------------------------------------------------------- CompValue -> model algebra (JSON tree)
def _attr(n, name):
    """translateExists / translateGroupGraphPattern assign *attributes* on CompValue
    objects (n.graph = ..., n.no_isolated_scope = True); the evaluator reads them
    back as attributes, which shadow the dict entries."""
    d = n.__dict__
    if name in d:
        return d[name]
    return OrderedDict.get(n, name, None)


def _vars_of(n):
    v = OrderedDict.get(n, "_vars", None)
    if v is None:
        return None
    return sorted(var_id(x) for x in v)


def t_tv(x):
    if isinstance(x, Variable):
        return -var_id(x)
    if isinstance(x, (URIRef, Literal)):
        return term_id(x)
    raise Unmodelled("term " + repr(x))


def t_expr(e):
    if isinstance(e, Variable):
        return ["var", var_id(e)]
    if isinstance(e, (URIRef, Literal)):
        return ["con", term_id(e)]
    if not isinstance(e, CompValue):
        raise Unmodelled("expr " + repr(e))
    nm = e.name
    if nm == "TrueFilter":
        return ["con", 21]
    if nm == "RelationalExpression":
        op = _attr(e, "op")
        if op in ("IN", "NOT IN"):
            left = _attr(e, "expr")
            if not isinstance(left, (Variable, URIRef, Literal)):
                raise Unmodelled("IN over a non-atomic left operand")
            other = _attr(e, "other")
            if isinstance(other, URIRef) and str.__str__(other).endswith("#nil"):
                other = []
            if not isinstance(other, list) or not all(isinstance(x, (URIRef, Literal)) for x in other):
                raise Unmodelled("IN list with non-constant members")
            return ["in", op == "IN", t_expr(left), [term_id(x) for x in other]]
        if op not in ("=", "!=", "<", ">"):
            raise Unmodelled("op " + str(op))
        return ["cmp", op, t_expr(_attr(e, "expr")), t_expr(_attr(e, "other"))]
    if nm in ("ConditionalAndExpression", "ConditionalOrExpression"):
        ops = [_attr(e, "expr")] + list(_attr(e, "other"))
        if any(isinstance(o, Variable) for o in ops):
            raise Unmodelled("bare variable as operand of && / ||")
        ts = [t_expr(o) for o in ops]
        tag = "and" if nm.startswith("ConditionalAnd") else "or"
        acc = ts[-1]
        for t in reversed(ts[:-1]):
            acc = [tag, t, acc]
        return acc
    if nm == "UnaryNot":
        return ["not", t_expr(_attr(e, "expr"))]
    if nm == "Builtin_COALESCE":
        args = _attr(e, "arg")
        if not isinstance(args, list):
            args = [args]
        ts = [t_expr(a) for a in args]
        acc = ts[-1]
        for t in reversed(ts[:-1]):
            acc = ["coalesce", t, acc]
        return acc
    if nm == "Builtin_IF":
        return ["if", t_expr(_attr(e, "arg1")), t_expr(_attr(e, "arg2")), t_expr(_attr(e, "arg3"))]
    if nm == "Builtin_BOUND":
        return ["bound", var_id(_attr(e, "arg"))]
    if nm in ("Builtin_EXISTS", "Builtin_NOTEXISTS"):
        if "graph" not in e.__dict__:
            raise Unmodelled("EXISTS whose pattern was not translated")
        return ["exists", nm == "Builtin_EXISTS", t_alg(e.__dict__["graph"])]
    raise Unmodelled("expr node " + nm)


def t_alg(n):
    if not isinstance(n, CompValue):
        raise Unmodelled("algebra " + repr(n))
    nm = n.name
    if nm == "BGP":
        return ["BGP", [[t_tv(x) for x in t] for t in _attr(n, "triples")]]
    if nm == "Join":
        return ["Join", bool(OrderedDict.get(n, "lazy", None)), t_alg(_attr(n, "p1")), t_alg(_attr(n, "p2"))]
    if nm == "LeftJoin":
        p1 = _attr(n, "p1")
        return ["LeftJoin", _vars_of(p1), t_alg(p1), t_alg(_attr(n, "p2")), t_expr(_attr(n, "expr"))]
    if nm == "Filter":
        return ["Filter", bool(_attr(n, "no_isolated_scope")), _vars_of(n), t_expr(_attr(n, "expr")), t_alg(_attr(n, "p"))]
    if nm == "Union":
        return ["Union", t_alg(_attr(n, "p1")), t_alg(_attr(n, "p2"))]
    if nm == "Minus":
        return ["Minus", t_alg(_attr(n, "p1")), t_alg(_attr(n, "p2"))]
    if nm == "Extend":
        return ["Extend", _vars_of(n), t_alg(_attr(n, "p")), var_id(_attr(n, "var")), t_expr(_attr(n, "expr"))]
    if nm == "ToMultiSet":
        p = _attr(n, "p")
        if isinstance(p, CompValue) and p.name == "values":
            rows = []
            for r in _attr(p, "res"):
                row = sorted([var_id(k), term_id(v)] for k, v in r.items() if v != "UNDEF")
                rows.append(row)
            return ["Values", rows]
        return t_alg(p)
    if nm == "Project":
        return ["Project", t_alg(_attr(n, "p")), [var_id(v) for v in _attr(n, "PV")]]
    if nm == "Distinct":
        return ["Distinct", t_alg(_attr(n, "p"))]
    if nm == "Slice":
        if _attr(n, "length") is not None:
            raise Unmodelled("Slice with a length (LIMIT)")
        return ["Slice", int(_attr(n, "start")), t_alg(_attr(n, "p"))]
    if nm == "Graph":
        return ["Graph", t_tv(_attr(n, "term")), t_alg(_attr(n, "p"))]
    raise Unmodelled("algebra node " + nm)


def translate_query(text):
    q = prepareQuery(text)
    a = q.algebra
    if a.name not in ("SelectQuery", "AskQuery", "ConstructQuery"):
        raise Unmodelled(a.name)
    if _attr(a, "datasetClause"):
        raise Unmodelled("dataset clause")
    return t_alg(_attr(a, "p"))


# ---------------------------------------------------------------- model algebra -> Coq
def c_tv(x):
    return f"(Vr {cN(-x)})" if x < 0 else f"(Tm {cN(x)})"


def c_tpat(t):
    return ctuple(*(c_tv(x) for x in t))


def c_sol(row):
    return clist(ctuple(cN(v), cN(t)) for v, t in row)


def c_vars(vs):
    return "None" if vs is None else "(Some " + clist(cN(v) for v in vs) + ")"


def c_expr(e):
    k = e[0]
    if k == "var":
        return f"(EVar {cN(e[1])})"
    if k == "con":
        return f"(ECon {cN(e[1])})"
    if k == "cmp":
        op = {"=": "OpEq", "!=": "OpNe", "<": "OpLt", ">": "OpGt"}[e[1]]
        return f"(ECmp {op} {c_expr(e[2])} {c_expr(e[3])})"
    if k == "and":
        return f"(EAnd {c_expr(e[1])} {c_expr(e[2])})"
    if k == "or":
        return f"(EOr {c_expr(e[1])} {c_expr(e[2])})"
    if k == "not":
        return f"(ENot {c_expr(e[1])})"
    if k == "bound":
        return f"(EBound {cN(e[1])})"
    if k == "exists":
        return f"(EExists {cbool(e[1])} {c_alg(e[2])})"
    if k == "in":
        return f"(EIn {cbool(e[1])} {c_expr(e[2])} " + clist(cN(c) for c in e[3]) + ")"
    if k == "coalesce":
        return f"(ECoalesce {c_expr(e[1])} {c_expr(e[2])})"
    if k == "if":
        return f"(EIf {c_expr(e[1])} {c_expr(e[2])} {c_expr(e[3])})"
    raise ValueError(e)


def c_alg(a):
    k = a[0]
    if k == "BGP":
        return "(BGP " + clist(c_tpat(t) for t in a[1]) + ")"
    if k == "Join":
        return f"(Join {cbool(a[1])} {c_alg(a[2])} {c_alg(a[3])})"
    if k == "LeftJoin":
        return f"(LeftJoin {c_vars(a[1])} {c_alg(a[2])} {c_alg(a[3])} {c_expr(a[4])})"
    if k == "Filter":
        return f"(Filter {cbool(a[1])} {c_vars(a[2])} {c_expr(a[3])} {c_alg(a[4])})"
    if k == "Union":
        return f"(Union {c_alg(a[1])} {c_alg(a[2])})"
    if k == "Minus":
        return f"(Minus {c_alg(a[1])} {c_alg(a[2])})"
    if k == "Extend":
        return f"(Extend {c_vars(a[1])} {c_alg(a[2])} {cN(a[3])} {c_expr(a[4])})"
    if k == "Values":
        return "(Values " + clist(c_sol(r) for r in a[1]) + ")"
    if k == "Project":
        return f"(Project {c_alg(a[1])} " + clist(cN(v) for v in a[2]) + ")"
    if k == "Distinct":
        return f"(Distinct {c_alg(a[1])})"
    if k == "Slice":
        return f"(Slice {cN(a[1])} {c_alg(a[2])})"
    if k == "Graph":
        return f"(Graph {c_tv(a[1])} {c_alg(a[2])})"
    raise ValueError(a)


def c_graph(g):
    return clist(ctuple(*(cN(x) for x in t)) for t in g)


# ---------------------------------------------------------------- reference translation (SPARQL 18.2) for the shape check
def ref_group(g):
    """section 18.2.2 on the harness AST; returns a tree in the vocabulary of t_alg
    without rdflib's annotations; joins with the empty BGP dropped (18.2.2.8
    simplification, rdflib's simplify())."""
    filters = [x[1] for x in g[1] if x[0] == "filter"]
    parts = []
    for x in g[1]:
        if x[0] == "filter":
            continue
        if x[0] == "bgp" and parts and parts[-1][0] == "bgp":
            parts[-1] = ["bgp", parts[-1][1] + x[1]]
        else:
            parts.append(x)
    G = ["BGP", []]

    def join(a, b):
        return ["Join", a, b]

    for x in parts:
        k = x[0]
        if k == "bgp":
            G = join(G, ["BGP", sorted([list(t) for t in x[1]])])
        elif k == "opt":
            A = ref_group(x[1])
            if A[0] == "Filter":
                G = ["LeftJoin", G, A[2], A[1]]
            else:
                G = ["LeftJoin", G, A, ["con", 21]]
        elif k == "minus":
            G = ["Minus", G, ref_group(x[1])]
        elif k == "union":
            U = ref_group(x[1])
            for h in x[2:]:
                U = ["Union", U, ref_group(h)]
            G = join(G, U)
        elif k == "group":
            G = join(G, ref_group(x))
        elif k == "graph":
            G = join(G, ["Graph", x[1], ref_group(x[2])])
        elif k == "values":
            rows = [sorted([v, t] for v, t in zip(x[1], r) if t is not None) for r in x[2]]
            G = join(G, ["Values", rows])
        elif k == "sub":
            inner = ref_group(x[3])
            P = ["Project", inner, sorted(x[2]) if x[2] else None]
            P = ["Distinct", P] if x[1] else P
            if len(x) > 4 and x[4]:
                P = ["Slice", x[4], P]          # 18.2.5: Slice is applied last
            G = join(G, P)
        elif k == "bind":
            G = ["Extend", G, x[2], ref_expr(x[1])]
        else:
            raise ValueError(x)
    if filters:
        es = [ref_expr(f) for f in filters]
        acc = es[-1]
        for e in reversed(es[:-1]):
            acc = ["and", e, acc]
        G = ["Filter", acc, G]
    return G


def ref_expr(e):
    if e[0] == "exists":
        return ["exists", e[1], ref_group(e[2])]
    if e[0] in ("and", "or"):
        return [e[0], ref_expr(e[1]), ref_expr(e[2])]
    if e[0] == "not":
        return ["not", ref_expr(e[1])]
    if e[0] == "cmp":
        return ["cmp", e[1], ref_expr(e[2]), ref_expr(e[3])]
    if e[0] == "in":
        return ["in", e[1], ref_expr(e[2]), list(e[3])]
    if e[0] == "coalesce":
        return ["coalesce", ref_expr(e[1]), ref_expr(e[2])]
    if e[0] == "if":
        return ["if", ref_expr(e[1]), ref_expr(e[2]), ref_expr(e[3])]
    return list(e)


def visible_vars(g):
    """in-scope variables of a group (SPARQL 18.2.1)"""
    out = set()
    for x in g[1]:
        k = x[0]
        if k == "bgp":
            out |= {-t for tp in x[1] for t in tp if t < 0}
        elif k in ("opt",):
            out |= visible_vars(x[1])
        elif k == "union":
            for h in x[1:]:
                out |= visible_vars(h)
        elif k == "group":
            out |= visible_vars(x)
        elif k == "graph":
            if x[1] < 0:
                out.add(-x[1])
            out |= visible_vars(x[2])
        elif k == "values":
            out |= set(x[1])
        elif k == "sub":
            out |= set(x[2]) if x[2] else visible_vars(x[3])
        elif k == "bind":
            out.add(x[2])
    return out


def strip(a):
    """rdflib's tree without annotations, BGP triples sorted, right-nested and/or flattened alike"""
    k = a[0]
    if k == "BGP":
        return ["BGP", sorted(a[1])]
    if k == "Join":
        return ["Join", strip(a[2]), strip(a[3])]
    if k == "LeftJoin":
        return ["LeftJoin", strip(a[2]), strip(a[3]), strip_e(a[4])]
    if k == "Filter":
        return ["Filter", strip_e(a[3]), strip(a[4])]
    if k in ("Union", "Minus"):
        return [k, strip(a[1]), strip(a[2])]
    if k == "Extend":
        return ["Extend", strip(a[2]), a[3], strip_e(a[4])]
    if k == "Values":
        return a
    if k == "Project":
        return ["Project", strip(a[1]), sorted(a[2])]
    if k == "Distinct":
        return ["Distinct", strip(a[1])]
    if k == "Slice":
        return ["Slice", a[1], strip(a[2])]
    if k == "Graph":
        return ["Graph", a[1], strip(a[2])]
    raise ValueError(a)


def strip_e(e):
    if e[0] == "exists":
        return ["exists", e[1], strip_in_exists(e[2])]
    if e[0] in ("and", "or"):
        return [e[0], strip_e(e[1]), strip_e(e[2])]
    if e[0] == "not":
        return ["not", strip_e(e[1])]
    if e[0] == "cmp":
        return ["cmp", e[1], strip_e(e[2]), strip_e(e[3])]
    if e[0] == "in":
        return ["in", e[1], strip_e(e[2]), list(e[3])]
    if e[0] == "coalesce":
        return ["coalesce", strip_e(e[1]), strip_e(e[2])]
    if e[0] == "if":
        return ["if", strip_e(e[1]), strip_e(e[2]), strip_e(e[3])]
    return list(e)


def drop_empty_joins(a):
    if a[0] == "Join":
        l, r = drop_empty_joins(a[1]), drop_empty_joins(a[2])
        if l == ["BGP", []]:
            return r
        if r == ["BGP", []]:
            return l
        return ["Join", l, r]
    if a[0] in ("BGP", "Values"):
        return a
    out = [a[0]]
    for x in a[1:]:
        out.append(drop_empty_joins(x) if isinstance(x, list) and x and isinstance(x[0], str) and x[0][0].isupper() else
                   (drop_e(x) if isinstance(x, list) and x and isinstance(x[0], str) else x))
    return out


def drop_e(e):
    if e[0] == "exists":
        return ["exists", e[1], drop_empty_joins(e[2])]
    if e[0] in ("and", "or"):
        return [e[0], drop_e(e[1]), drop_e(e[2])]
    if e[0] == "not":
        return ["not", drop_e(e[1])]
    if e[0] == "cmp":
        return ["cmp", e[1], drop_e(e[2]), drop_e(e[3])]
    if e[0] == "in":
        return ["in", e[1], drop_e(e[2]), list(e[3])]
    if e[0] == "coalesce":
        return ["coalesce", drop_e(e[1]), drop_e(e[2])]
    if e[0] == "if":
        return ["if", drop_e(e[1]), drop_e(e[2]), drop_e(e[3])]
    return list(e)


def strip_in_exists(a):
    # rdflib does not run simplify() inside EXISTS: joins with the empty BGP stay
    return drop_empty_joins(strip(a))


def shape_matches(case, alg):
    ref = drop_empty_joins(ref_group(case["q"]))
    got = drop_empty_joins(strip(alg))
    if case.get("modifier") == "DISTINCT":
        if got[0] != "Distinct":
            return False
        got = got[1]
    if got[0] != "Project":
        return False
    return same_shape(got[1], ref)


def same_shape(got, ref):
    """equality of trees; a reference Project with PV None (SELECT *) accepts any PV that
    contains the in-scope variables"""
    if isinstance(ref, list) and ref and ref[0] == "Project" and isinstance(got, list) and got and got[0] == "Project":
        if ref[2] is not None and ref[2] != got[2]:
            return False
        return same_shape(got[1], ref[1])
    if isinstance(ref, list) and isinstance(got, list):
        return len(ref) == len(got) and all(same_shape(g, r) for g, r in zip(got, ref))
    return got == ref


# ---------------------------------------------------------------- the suite
class C04(Suite):
    name = "sparql_eval"
    imports = "From RV Require Import Sparql.EvalTD Sparql.Findings.\nSet Printing Width 1000000."
    case_ty = "case"
    obs_ty = "obs"
    model = "model_obs"
    oeq = "obs_eqb"
    spec = "spec_ok"
    kf = "kf"
    kf_ids = {i: f"F-C04-{i}" for i in (1, 2, 4, 5, 6, 7, 9)}  # 3, 8, 10, 11 fixed in /repo
    corr = "rdflib.plugins.sparql.evaluate.evalPart (evalBGP, evalJoin, evalLazyJoin, evalLeftJoin, evalFilter, evalUnion, evalMinus, evalExtend, evalValues, evalGraph, evalProject, evalDistinct, evalSlice), evalConstructQuery / _fillTemplate, processor.SPARQLProcessor.query with the graph's namespace bindings, operators.RelationalExpression/ConditionalAnd/Or/UnaryNot/Builtin_BOUND/Builtin_EXISTS, algebra.translateQuery"
    quick_n = 1200
    thorough_n = 12000
    timeout_s = 10.0

    # ------------------------------------------------------------ generation
    def gen(self, rng, i):
        is_ds = rng.random() < 0.5
        nv = rng.choice([1, 2, 2, 3, 3, 4])
        subs = rng.sample([1, 2, 3], rng.choice([2, 2, 3]))
        preds = rng.sample([4, 5], rng.choice([1, 2, 2]))
        objs = sorted(set(rng.sample(subs, rng.choice([1, 2])) + rng.sample([10, 11, 12], rng.choice([0, 1, 1, 2]))))
        if rng.random() < 0.2:
            # a literal of a second kind in the data (xsd:boolean next to the integers): finding F-C04-9's region
            objs = sorted(set(objs + [rng.choice([20, 21])]))
        env = {"rng": rng, "nv": nv, "subs": subs, "preds": preds, "objs": objs, "ds": is_ds,
               "budget": rng.choice([2, 3, 4, 5, 6])}

        def data(n):
            pool = [[s, p, o] for s in subs for p in preds for o in objs]
            rng.shuffle(pool)
            return sorted(pool[:n])

        default = data(rng.choice([2, 3, 4, 5, 6, 8]))
        named = []
        if is_ds:
            named = [[1, data(rng.choice([0, 1, 2, 3, 4]))], [2, data(rng.choice([1, 2, 3, 4]))]]
        env["triples"] = default + [t for _, ts in named for t in ts]
        q = self.gen_group(env, rng.choice([1, 2, 2, 3, 3, 4]), top=True)
        twin = rng.random() < 0.10
        if twin:
            q = self.gen_twin(env)
        if is_ds and not twin and rng.random() < 0.14:
            named, q = self.gen_graph_exists(env, named)
        elif not twin and rng.random() < 0.07:
            q = self.gen_expr_focus(env)
        r = rng.random()
        case = {"ds": is_ds, "default": default, "named": named, "q": q}
        if r < 0.8 or twin:
            case["form"] = "select"
            case["proj"] = None
            if twin or rng.random() < 0.12:
                case["modifier"] = "DISTINCT"
            if rng.random() < 0.15:
                vs = sorted(visible_vars(q))
                if vs:
                    case["proj"] = sorted(rng.sample(vs, rng.randint(1, len(vs))))
        elif r < 0.9:
            case["form"] = "ask"
        elif r < 0.95:
            case["form"] = "construct"
            case["template"] = [self.gen_tpat(env, tmpl=True) for _ in range(rng.choice([1, 2]))]
        else:
            # CONSTRUCT { _:b p ?v . [_:b q ?w .] }: one fresh blank node per solution, observed as stars
            case["form"] = "star"
            vs = sorted(visible_vars(q)) or [1]
            k = min(len(vs), rng.choice([1, 1, 2]))
            case["star"] = [[p, v] for p, v in zip([4, 5], rng.sample(vs, k))]
        if rng.random() < 0.12:
            case["ns"] = True        # posed through the graph's namespace bindings, after a decoy (run_impl)
        if not is_ds and not twin and rng.random() < 0.05:
            case = self.gen_offset(env)
        return case

    def gen_offset(self, env):
        """{ ?1 q ?3 . { SELECT ?1 { ?1 p ?2 } OFFSET n } } observed through a projection onto a variable
        nothing binds, i.e. as the NUMBER of solutions.  Every subject has exactly one q-triple, so every row
        of the sub-SELECT joins exactly one outer solution and the count does not depend on WHICH n rows the
        slice drops (no ORDER BY: the order is the implementation's)."""
        rng = env["rng"]
        default = []
        for s in env["subs"]:
            default.append([s, 5, rng.choice(env["objs"])])
            for o in rng.sample([1, 2, 3, 10, 11, 12], rng.choice([1, 2, 2, 3])):
                default.append([s, 4, o])
        n = rng.choice([1, 1, 2, 3])
        q = ["group", [["bgp", [[-1, 5, -3]]], ["sub", False, [1], ["group", [["bgp", [[-1, 4, -2]]]]], n]]]
        return {"ds": False, "default": sorted(default), "named": [], "q": q, "form": "select", "proj": [9], "offset": True}

    def gen_var(self, env):
        return env["rng"].randint(1, env["nv"])

    def gen_expr_focus(self, env):
        """one BGP and one IF / COALESCE / IN expression over its variables, constants of the data and a
        variable that nothing binds (so that the error semantics of the unchosen / skipped operands shows)"""
        rng = env["rng"]
        s0, p0, o0 = rng.choice(env["triples"]) if env["triples"] else (1, 4, 2)
        unb = ["var", 9]
        vals = sorted({t[2] for t in env["triples"]} | {t[0] for t in env["triples"]}) or [1]

        def atom():
            r = rng.random()
            if r < 0.3:
                return ["var", 1]
            if r < 0.6:
                return ["var", 2]
            if r < 0.8:
                return ["con", rng.choice(vals)]
            return unb

        def cond():
            c = ["cmp", rng.choice(["=", "!="]), ["var", rng.choice([1, 2])], ["con", rng.choice([s0, o0] + vals)]]
            return c if rng.random() < 0.8 else ["bound", rng.choice([1, 2, 9])]

        k = rng.choice(["if", "if", "coalesce", "in", "in", "iff"])
        if k == "if":
            el = ["bind", ["if", cond(), atom(), atom()], 5]
        elif k == "coalesce":
            args = [atom() for _ in range(rng.choice([2, 3]))]
            e = args[-1]
            for a in reversed(args[:-1]):
                e = ["coalesce", a, e]
            el = ["bind", e, 5]
        elif k == "in":
            cs = [rng.choice([s0, o0] + vals) for _ in range(rng.choice([1, 2, 3]))]
            el = ["filter", ["in", rng.random() < 0.5, ["var", rng.choice([1, 2])], cs]]
        else:
            el = ["filter", ["if", cond(), cond(), cond()]]
        return ["group", [["bgp", [[-1, p0, -2]]], el]]

    def gen_graph_exists(self, env, named):
        """(NOT) EXISTS - as FILTER, as the condition of an OPTIONAL, as the value of a BIND -
        inside GRAPH ?g over two named graphs that SHARE the triples the outer pattern
        matches (so the same inner solution occurs in both graphs) but differ in what
        the EXISTS pattern matches"""
        rng = env["rng"]
        subs, preds = env["subs"], env["preds"]
        nodes = sorted(set(subs + [o for o in env["objs"] if o < 10])) or subs
        s0, o0 = rng.choice(subs), rng.choice(nodes)
        p0, q0 = rng.choice(preds), rng.choice(preds)
        w0 = rng.choice(env["objs"])
        shared = [[s0, p0, o0]]
        if rng.random() < 0.5:
            shared.append([rng.choice(subs), rng.choice(preds), rng.choice(env["objs"])])
        only = [o0, q0, w0]
        shared = [t for t in shared if t != only]
        if not shared:
            shared = [[s0, p0, o0]] if [s0, p0, o0] != only else [[s0, p0, w0]]
        extra = [[rng.choice(subs), rng.choice(preds), rng.choice(env["objs"])]] if rng.random() < 0.4 else []
        extra = [t for t in extra if t != only]
        g1 = sorted([list(t) for t in {tuple(t) for t in shared + [only]}])
        g2 = sorted([list(t) for t in {tuple(t) for t in shared + extra}])
        if rng.random() < 0.5:
            g1, g2 = g2, g1
        named = [[named[0][0], g1], [named[1][0], g2]]
        outer = ["bgp", [[-1, p0, -2]]]
        ex = ["exists", rng.random() < 0.5, ["group", [["bgp", [[-2, q0, -3]]]]]]
        kind = rng.choice(["filter", "filter", "opt", "bind"])
        if kind == "filter":
            inner = [outer, ["filter", ex]]
        elif kind == "opt":
            inner = [outer, ["opt", ["group", [["bgp", [[-1, p0, -5]]], ["filter", ex]]]]]
        else:
            inner = [outer, ["bind", ex, 5]]
        els = [["graph", -4, ["group", inner]]]
        if rng.random() < 0.3:
            els.insert(0, ["bgp", [self.gen_tpat(env)]])
        return named, ["group", els]

    def gen_twin(self, env):
        """a UNION whose two branches consist of the SAME triple patterns, once as one
        BGP and once as a sequence of joined groups in another order: every solution
        arrives twice, along evaluation paths that bind its variables in different
        orders (a DISTINCT over it must collapse them)"""
        rng = env["rng"]
        tps = [self.gen_tpat(env) for _ in range(rng.choice([2, 2, 3]))]
        one = ["group", [["bgp", [list(t) for t in tps]]]]
        sh = [list(t) for t in tps]
        rng.shuffle(sh)
        r = rng.random()
        if r < 0.4:
            two = ["group", [["group", [["bgp", [t]]]] for t in sh]]
        elif r < 0.7:
            two = ["group", [["bgp", [sh[0]]], ["group", [["bgp", sh[1:]]]]]]
        else:
            two = ["group", [["group", [["bgp", sh[1:]]]], ["group", [["bgp", [sh[0]]]]]]]
        br = [one, two]
        rng.shuffle(br)
        els = [["union", br[0], br[1]]]
        if rng.random() < 0.3:
            els.insert(rng.choice([0, 1]), ["bgp", [self.gen_tpat(env)]])
        return ["group", els]

    def gen_tpat(self, env, tmpl=False):
        rng = env["rng"]
        if rng.random() < 0.85 and env["triples"]:
            s0, p0, o0 = rng.choice(env["triples"])
        else:
            s0, p0, o0 = rng.choice(env["subs"]), rng.choice(env["preds"]), rng.choice(env["objs"])
        s = -self.gen_var(env) if rng.random() < 0.75 else s0
        p = p0 if rng.random() < 0.85 else -self.gen_var(env)
        o = -self.gen_var(env) if rng.random() < 0.75 else o0
        return [s, p, o]

    def gen_atom(self, env):
        rng = env["rng"]
        if rng.random() < 0.65:
            return ["var", self.gen_var(env)]
        return ["con", rng.choice(env["objs"] + env["subs"] + [10, 11])]

    def gen_expr(self, env, depth, allow_exists=True):
        rng = env["rng"]
        r = rng.random()
        if r < 0.45 or depth <= 0:
            op = rng.choice(["=", "=", "!=", "!=", "<", ">"])
            return ["cmp", op, self.gen_atom(env), self.gen_atom(env)]
        if r < 0.55:
            return ["bound", self.gen_var(env)]
        if r < 0.65:
            return ["not", self.gen_expr(env, depth - 1, allow_exists)]
        if r < 0.75:
            return ["and", self.gen_expr(env, depth - 1, allow_exists), self.gen_expr(env, depth - 1, allow_exists)]
        if r < 0.83:
            return ["or", self.gen_expr(env, depth - 1, allow_exists), self.gen_expr(env, depth - 1, allow_exists)]
        if r < 0.88:
            pool = sorted({t[0] for t in env["triples"]} | {t[2] for t in env["triples"]}) or env["subs"]
            cs = [rng.choice(pool + [10, 11]) for _ in range(rng.choice([0, 1, 2, 2, 3]))]
            return ["in", rng.random() < 0.5, ["var", self.gen_var(env)] if rng.random() < 0.8 else self.gen_atom(env), cs]
        if r < 0.91:
            return ["if", self.gen_expr(env, depth - 1, False), self.gen_expr(env, depth - 1, False),
                    self.gen_expr(env, depth - 1, False)]
        if r < 0.93:
            return ["coalesce", self.gen_expr(env, depth - 1, False), self.gen_expr(env, depth - 1, False)]
        if allow_exists and env["budget"] > 0:
            env["budget"] -= 1
            return ["exists", rng.random() < 0.5, self.gen_group(env, min(depth, 1), in_exists=True)]
        return ["bound", self.gen_var(env)]

    def gen_group(self, env, depth, top=False, in_exists=False):
        rng = env["rng"]
        n = rng.choice([1, 1, 2, 2, 3]) if not top else rng.choice([1, 2, 2, 3, 3, 4])
        elems = []
        bound_here = set()
        for j in range(n):
            r = rng.random()
            if depth <= 0 or r < 0.35 or (j == 0 and r < 0.6):
                k = rng.choice([1, 1, 2])
                tps = [self.gen_tpat(env) for _ in range(k)]
                elems.append(["bgp", tps])
            elif r < 0.47:
                elems.append(["opt", self.gen_group(env, depth - 1)])
            elif r < 0.56:
                elems.append(["union", self.gen_group(env, depth - 1), self.gen_group(env, depth - 1)])
            elif r < 0.62:
                elems.append(["minus", self.gen_group(env, depth - 1)])
            elif r < 0.70:
                elems.append(["filter", self.gen_expr(env, 2, allow_exists=not in_exists)])
            elif r < 0.76:
                # BIND target must not be in scope before (syntax rule); pick one that is not
                used = visible_vars(["group", elems])
                cands = [v for v in range(1, env["nv"] + 2) if v not in used]
                if cands:
                    v = rng.choice(cands)
                    rb = rng.random()
                    if rb < 0.5:
                        e = self.gen_atom(env)
                    elif rb < 0.62:
                        e = ["coalesce", self.gen_atom(env), self.gen_atom(env)]
                        if rng.random() < 0.4:
                            e = ["coalesce", self.gen_atom(env), e]
                    elif rb < 0.74:
                        br = [self.gen_atom(env), self.gen_atom(env)]
                        if rng.random() < 0.5:
                            # one branch that raises when evaluated (a variable nothing binds)
                            br[rng.choice([0, 1])] = ["var", env["nv"] + 2]
                        e = ["if", self.gen_expr(env, 1, allow_exists=False), br[0], br[1]]
                    else:
                        e = self.gen_expr(env, 1, allow_exists=False)
                    elems.append(["bind", e, v])
                else:
                    elems.append(["bgp", [self.gen_tpat(env)]])
            elif r < 0.83:
                k = rng.choice([1, 1, 2])
                vs = sorted(rng.sample(range(1, env["nv"] + 1), min(k, env["nv"])))
                rows = []
                for _ in range(rng.choice([1, 2, 2, 3])):
                    rows.append([None if rng.random() < 0.15 else rng.choice(env["subs"] + env["objs"]) for _ in vs])
                if rng.random() < 0.2:
                    rows.append(list(rows[0]))
                elems.append(["values", vs, rows])
            elif r < 0.89:
                inner = self.gen_group(env, depth - 1)
                vs = sorted(visible_vars(inner))
                pv = []
                if vs and rng.random() < 0.8:
                    pv = sorted(rng.sample(vs, rng.randint(1, len(vs))))
                elems.append(["sub", rng.random() < 0.3, pv, inner])
            elif r < 0.95 and env["ds"]:
                gt = -self.gen_var(env) if rng.random() < 0.6 else rng.choice([1, 2, 3])
                elems.append(["graph", gt, self.gen_group(env, depth - 1)])
            else:
                elems.append(["group", self.gen_group(env, depth - 1)[1]])
        return ["group", elems]

    # ------------------------------------------------------------ implementation
    def build(self, case):
        if case["ds"]:
            d = Dataset()
            for t in case["default"]:
                d.add(tuple(term(x) for x in t))
            for name, ts in case["named"]:
                g = d.graph(term(name))
                for t in ts:
                    g.add(tuple(term(x) for x in t))
            return d
        g = Graph()
        for t in case["default"]:
            g.add(tuple(term(x) for x in t))
        return g

    def observe(self, case, res):
        f = case["form"]
        if f == "select":
            rows = []
            for b in res.bindings:
                rows.append(sorted([var_id(k), term_id(v)] for k, v in b.items()))
            return {"sel": sorted(rows)}
        if f == "ask":
            return {"ask": bool(res.askAnswer)}
        if f == "star":
            # one star per blank node: the template variables it instantiates, as a solution
            var_of = {term(p): v for p, v in case["star"]}
            stars = {}
            for s, p, o in res.graph:
                if not isinstance(s, BNode) or p not in var_of:
                    return {"err": "star: unexpected triple"}
                stars.setdefault(s, []).append([var_of[p], term_id(o)])
            return {"sel": sorted(sorted(r) for r in stars.values())}
        return {"cons": sorted([term_id(s), term_id(p), term_id(o)] for s, p, o in res.graph)}

    def run_impl(self, case):
        text = render(case)
        try:
            alg = translate_query(text)
        except Unmodelled as e:
            return {"err": "unmodelled: " + str(e)}
        except Exception as e:  # noqa: BLE001
            return {"err": "translate: " + type(e).__name__}
        try:
            if not shape_matches(case, alg):
                return {"err": "translation differs from section 18.2"}
        except Exception as e:  # noqa: BLE001
            return {"err": "shape: " + type(e).__name__ + str(e)}
        store = self.build(case)
        try:
            if case.get("ns"):
                # the same query text, its IRIs spelled through a prefix that only the graph's
                # namespace bindings declare; first posed to a graph that binds the prefix to
                # ANOTHER namespace (nothing of that answer may stick to the text), then to the data
                text2 = re.sub(r"<http://e/(\w+)>", r"e:\1", text)
                decoy = Graph()
                decoy.bind("e", "http://decoy.example/")
                decoy.add((URIRef("http://decoy.example/a"), URIRef("http://decoy.example/p"), URIRef("http://decoy.example/b")))
                try:
                    list(decoy.query(text2))
                except Exception:  # noqa: BLE001
                    pass
                store.bind("e", "http://e/")
                res = store.query(text2)
            else:
                res = store.query(text)
            return self.observe(case, res)
        except Exception as e:  # noqa: BLE001
            return {"err": type(e).__name__}

    # ------------------------------------------------------------ Coq text
    def coq_case(self, case):
        text = render(case)
        try:
            alg = c_alg(translate_query(text))
        except Exception:  # noqa: BLE001
            alg = "(BGP [])"
        ds = ("{| ds_default := " + c_graph(case["default"]) + "; ds_named := "
              + clist(ctuple(cN(n), c_graph(ts)) for n, ts in case["named"]) + " |}")
        f = case["form"]
        form = ("FSelect" if f == "select" else "FAsk" if f == "ask"
                else "(FStar " + clist(cN(v) for _, v in case["star"]) + ")" if f == "star"
                else "(FConstruct " + clist(c_tpat(t) for t in case["template"]) + ")")
        return "{| c_ds := " + ds + "; c_form := " + form + "; c_alg := " + alg + " |}"

    def coq_obs(self, obs):
        if "sel" in obs:
            return "(RSel " + clist(c_sol(r) for r in obs["sel"]) + ")"
        if "ask" in obs:
            return f"(RAsk {cbool(obs['ask'])})"
        if "cons" in obs:
            return "(RCons " + c_graph(obs["cons"]) + ")"
        return "RErr"

    def on_timeout(self, case):
        return {"err": "timeout"}

    def nontrivial(self, case, obs):
        return "err" not in obs and (bool(obs.get("sel")) or bool(obs.get("cons")) or "ask" in obs)

    def features(self, case, obs):
        f = {"form_" + case["form"]: 1, "dataset": int(case["ds"]), "err": int("err" in obs),
             "distinct": int(case.get("modifier") == "DISTINCT"),
             "rows": len(obs.get("sel", []))}

        def walk(g):
            for x in g[1]:
                f["el_" + x[0]] = f.get("el_" + x[0], 0) + 1
                if x[0] in ("opt", "minus"):
                    walk(x[1])
                elif x[0] == "union":
                    walk(x[1]), walk(x[2])
                elif x[0] == "graph":
                    walk(x[2])
                elif x[0] == "sub":
                    walk(x[3])
                elif x[0] == "group":
                    walk(x)
                elif x[0] in ("filter", "bind"):
                    wexpr(x[1])

        def wexpr(e):
            if e[0] == "exists":
                f["exists"] = f.get("exists", 0) + 1
                walk(e[2])
            elif e[0] in ("and", "or"):
                wexpr(e[1]), wexpr(e[2])
            elif e[0] == "not":
                wexpr(e[1])
            elif e[0] in ("in", "coalesce", "if"):
                f["expr_" + e[0]] = f.get("expr_" + e[0], 0) + 1
                for x in e[1:]:
                    if isinstance(x, list) and x and isinstance(x[0], str):
                        wexpr(x)

        walk(case["q"])
        return f

    def shrink(self, case):
        # drop data
        for i in range(len(case["default"])):
            yield dict(case, default=case["default"][:i] + case["default"][i + 1:])
        for gi, (name, ts) in enumerate(case["named"]):
            for i in range(len(ts)):
                nn = copy.deepcopy(case["named"])
                nn[gi][1] = ts[:i] + ts[i + 1:]
                yield dict(case, named=nn)
        if case.get("proj"):
            yield dict(case, proj=None)
        if case.get("modifier"):
            yield dict(case, modifier=None)
        # structural shrinking of the query
        for q in shrink_group(case["q"]):
            c = dict(case, q=q)
            if c.get("proj"):
                vs = visible_vars(q)
                c["proj"] = [v for v in c["proj"] if v in vs] or None
            yield c


def shrink_group(g):
    els = g[1]
    for i in range(len(els)):
        if len(els) > 1:
            yield ["group", els[:i] + els[i + 1:]]
    for i, x in enumerate(els):
        k = x[0]

        def put(y):
            return ["group", els[:i] + [y] + els[i + 1:]]

        if k == "bgp":
            for j in range(len(x[1])):
                if len(x[1]) > 1:
                    yield put(["bgp", x[1][:j] + x[1][j + 1:]])
        elif k in ("opt", "minus"):
            yield ["group", els[:i] + x[1][1] + els[i + 1:]]
            for h in shrink_group(x[1]):
                yield put([k, h])
        elif k == "union":
            yield put(["group", x[1][1]])
            yield put(["group", x[2][1]])
            for h in shrink_group(x[1]):
                yield put(["union", h, x[2]])
            for h in shrink_group(x[2]):
                yield put(["union", x[1], h])
        elif k == "graph":
            yield put(["group", x[2][1]])
            for h in shrink_group(x[2]):
                yield put(["graph", x[1], h])
        elif k == "group":
            yield ["group", els[:i] + x[1] + els[i + 1:]]
            for h in shrink_group(x):
                yield put(h)
        elif k == "sub":
            yield put(["group", x[3][1]])
            if x[1]:
                yield put(["sub", False, x[2], x[3]])
            for h in shrink_group(x[3]):
                vs = visible_vars(h)
                yield put(["sub", x[1], [v for v in x[2] if v in vs], h])
        elif k == "values":
            for j in range(len(x[2])):
                if len(x[2]) > 1:
                    yield put(["values", x[1], x[2][:j] + x[2][j + 1:]])
        elif k == "filter":
            for e in shrink_expr(x[1]):
                yield put(["filter", e])
        elif k == "bind":
            for e in shrink_expr(x[1]):
                yield put(["bind", e, x[2]])


def shrink_expr(e):
    k = e[0]
    if k in ("and", "or"):
        yield e[1]
        yield e[2]
        for a in shrink_expr(e[1]):
            yield [k, a, e[2]]
        for b in shrink_expr(e[2]):
            yield [k, e[1], b]
    elif k == "not":
        yield e[1]
        for a in shrink_expr(e[1]):
            yield ["not", a]
    elif k == "exists":
        for h in shrink_group(e[2]):
            yield ["exists", e[1], h]
    elif k == "in":
        for i in range(len(e[3])):
            yield ["in", e[1], e[2], e[3][:i] + e[3][i + 1:]]
    elif k == "coalesce":
        yield e[1]
        yield e[2]
    elif k == "if":
        yield e[2]
        yield e[3]
        for c in shrink_expr(e[1]):
            yield ["if", c, e[2], e[3]]


class C04Frag(C04):
    """The same generator, measured against the PROVED fragment: the trigger of this suite is
    "a finding trigger fires, or the case is outside the fragment of C04_spec_ok_model_partial", so that
    evidence.coverage.trigger_hits["fragment_share"] / distribution["fragment_share.cases"] is the share of
    generated cases that the tie theorem does not cover (for "sparql_eval" the same ratio is the share of
    triggered cases).  Verdicts are as in the main suite."""
    name = "fragment_share"
    imports = "From RV Require Import Sparql.Tie.\nSet Printing Width 1000000."
    kf = "(fun c => if N.eqb (kf c) 0 then (if in_frag c && case_wf c then 0%N else 100%N) else kf c)"
    quick_n = 300
    thorough_n = 3000

    def features(self, case, obs):
        return {"cases": 1}


SUITES = [C04(), C04Frag()]

TRUSTED = [
    "Coq 8.16.1 kernel and vm_compute",
    "harness/c04.py: rendering of the query AST as SPARQL text, conversion of rdflib's CompValue algebra tree into the Coq type alg "
    "(fails closed), conversion of Result.bindings / askAnswer / graph into the observation",
    "the pyparsing grammar of rdflib (parser.py) - outside the model; the translation algebra.py is compared with an independent "
    "section-18.2 translation of the AST by the harness (shape, filter placement), its annotations (lazy, _vars, no_isolated_scope) are taken as data",
    "coq/Sparql/EvalBU.v as the reading of SPARQL 1.1 section 18 (incl. EXISTS as compatibility with the current solution, a filter at the "
    "top of the EXISTS pattern seeing the merged solution whatever rdflib's no_isolated_scope annotation says; no substitution into deeper filters)",
]
ASSUMPTIONS = [
    "vocabulary: IRIs, small xsd:integer literals and (in 20 % of the cases) one xsd:boolean literal among the objects of the data; "
    "no plain / language-tagged strings, no blank nodes; the theorems C04_pushdown_partial / C04_spec_ok_model_partial assume data without "
    "boolean literals (case_wf): with them and a comparison in the query the case is in the region of F-C04-9 (trigger 9)",
    "initBindings empty (C15 exercises initBindings by conformance)",
    "OFFSET (Slice without a length) only on a sub-SELECT at the top of the outermost group, in cases built so that the NUMBER of solutions "
    "does not depend on which rows the slice drops (every row of the sub-SELECT joins exactly one outer solution; observed through a projection "
    "onto a variable nothing binds); the specification's Slice takes the list order of its own evaluation; no LIMIT, no ORDER BY; Slice is "
    "outside the proved fragment (shape = false)",
    "blank nodes in CONSTRUCT templates only in the form 'one blank node, one triple per variable' (form star), observed as the multiset of "
    "stars = solutions restricted to the template variables; other templates have no blank nodes",
    "12 % of the cases are posed through a prefix declared only by the graph's namespace bindings, after the same text has been posed to a "
    "graph that binds that prefix to another namespace; the model knows nothing of prefixes (the answer must be that of the full-IRI query)",
    "the order of solutions and of dict entries is not observed",
    "expressions: variables, constants, = != < >, && || !, BOUND, IN / NOT IN over constant lists with an atomic left operand, IF, COALESCE, "
    "(NOT) EXISTS; not modelled (the converter fails closed): arithmetic, the string / date / hash built-ins, IN over non-constant members, "
    "bare variables as operands of && / ||, property paths",
    "m.ctx.bindings of a solution (used by Builtin_EXISTS through thaw when the visible solution is empty) is approximated by the solution before forget()",
]
RULE = ("queries: group graph patterns of nesting <= 4 over 1-4 variables shared at random between BGPs, OPTIONAL, UNION, MINUS, FILTER "
        "(comparisons, && || !, BOUND, IN / NOT IN over constants, IF, COALESCE, (NOT) EXISTS), BIND (also of IF / COALESCE with an operand that raises), VALUES (with UNDEF and duplicate rows), sub-SELECT (DISTINCT or not), GRAPH "
        "(IRI or variable; 14 % of the dataset cases: (NOT) EXISTS as FILTER / OPTIONAL condition / BIND inside GRAPH ?g over two named graphs that share the outer matches and differ in what the EXISTS pattern matches), SELECT (star or projection) / ASK / CONSTRUCT (5 % ground-or-variable templates, 5 % one-blank-node star templates); 5 % of the non-dataset cases: "
        "{ ?x q ?z . { SELECT ?x { ?x p ?y } OFFSET n } } over data with exactly one q-triple per subject, projected onto an unbound variable; data: 1-5 triples over 2-3 subjects, 1-2 predicates, 2-3 objects (IRIs and integers; with probability 0.2 also one xsd:boolean), "
        "datasets with two named graphs whose names are also data terms; distinct by full case content; non-trivial = evaluated without error")
