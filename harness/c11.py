"""C11 - property paths: correspondence between coq/Paths/Model.v and
rdflib/paths.py, reached through Graph.triples / subjects / objects /
subject_objects, ConjunctiveGraph.triples (union graph) and SPARQL text
(parser.py Path grammar, algebra.translatePath, evaluate.evalBGP)."""
from __future__ import annotations

import itertools
import warnings

from .core import Suite, cN, cbool, clist, copt, ctuple
from .terms import GRAPH_POOL, TERM_POOL, rdflib, term, term_id

warnings.filterwarnings("ignore", category=DeprecationWarning)
from rdflib import BNode, ConjunctiveGraph, Dataset, Graph, Literal, URIRef, Variable  # noqa: E402
from rdflib.paths import (AlternativePath, InvPath, MulPath, NegatedPath,  # noqa: E402
                          SequencePath)

TRUSTED = [
    "Coq 8.16.1 kernel and vm_compute",
    "harness/c11.py: construction of the rdflib path object / SPARQL text from the case's path AST or syntax tree, read-back of the translated object (ast_of), numbering of terms (harness/terms.py), choice of the triple list a graph-restricted pattern is judged against (effective)",
    "coq/Paths/Model.v, TransModel.v: path_rel / tree_rel / ends_ok are the intended reading of SPARQL 1.1 sections 18.2.2.3, 18.4, 18.5 (relation of a path, zero-length matches, negated property sets)",
    "rdflib Memory store and Graph.triples for IRI predicates: a triple pattern is answered with each matching triple exactly once, in some order (hypothesis enum_perm_ok of C11_order_independent)",
]
ASSUMPTIONS = [
    "terms compare by (class, lexical form, datatype, language): the pool contains no two distinct terms that rdflib considers equal",
    "members of a negated property set are IRIs or inverted IRIs (the SPARQL grammar); InvPath(<path>) inside NegatedPath is outside the model",
    "the Python interpreter's resources (stack depth, memory) are outside the model; suite deep_chain checks chains of up to 2500 steps",
    "suite bgp: the order in which evalBGP receives the triple patterns is read back from the translated algebra (algebra.reorderTriples is not modelled); its checker bspec_ok is tied to the model by evaluation on every case, not by a theorem",
    "SPARQL route: the text->tree step of parser.py is covered by conformance only (suite translate compares the translated object with the model of translatePath on the tree the text was rendered from); 'a' and DISTINCT(path) are not generated",
]
RULE = ("path AST of depth <= 4 (iri, ^, /, |, * + ?, negated sets) x graph of <= 8 triples over <= 5 nodes with self-loops, 2-cycles, "
        "literal and falsy end points x each end unbound / bound to a node / bound to a term outside the graph x route "
        "(triples, subjects/objects, ConjunctiveGraph union, SPARQL constants, SPARQL initBindings); distinct by full case content; "
        "non-trivial = non-empty answer or composite path.  Suite path_history: one Graph (or ConjunctiveGraph) object, 1-3 patterns "
        "re-evaluated between mutations (60% size-preserving remove+add, add, remove; Graph.add/remove or SPARQL INSERT DATA / DELETE DATA / "
        "DELETE..INSERT..WHERE {}), every evaluation judged against the triples present at that moment; non-trivial = at least two "
        "evaluations, a mutation and a non-empty answer.  Suite path_in_graph: ConjunctiveGraph / Dataset (default_union on and off) with "
        "different triples scattered over 2-3 named graphs and the default graph, a path pattern restricted to one graph by context= (Graph "
        "object or name), quad pattern, `in`, the context graph itself or SPARQL GRAPH; judged against the relation over that graph's triples; "
        "non-trivial = the requested graph holds fewer triples than the dataset.  Suite translate: syntax trees layered as grammar rules [88]-[96] "
        "(alternatives of sequences of optionally inverted elements with optional modifier over iri / negated set / parenthesised path, depth <= 3, "
        "single-part alternatives and sequences, redundant parentheses, bare and parenthesised negated sets), rendered to text, parsed and translated by "
        "rdflib; the translated object's structure is compared with the model of translatePath and its relation with the tree's relation over a "
        "small graph; non-trivial = the object is not a plain IRI.  Suite path_in_graph also asks a ReadOnlyGraphAggregate of the layout's graphs "
        "(triples, SPARQL, `in`).  Suite same_var: ?x path ?x.  Suite deep_chain: closures over chains of 1100-2500 triples (beyond the recursion "
        "limit), number of answers compared with the model's eval and the closed form.  Suite bgp: BGPs of 2-3 triple patterns with plain and path "
        "predicates over 2-3 variables, constant ends (nodes, falsy literals, outside terms), initBindings; the evaluation order is read back from the "
        "translated algebra; solutions compared as multisets of maps; non-trivial = some pattern has a path predicate.  Suite paths also inserts the triples in list / reversed / shuffled order")

NODE_VOCAB = [1, 2, 12, 8, 13, 5, 6, 7, 10, 14]   # a b c _:b1 _:b2 "" 0 false "x" 0.0
LITS = {5, 6, 7, 9, 10, 11, 14}
PREDS = [3, 4]
MODS = ["*", "+", "?"]
VIAS = ["triples", "so", "cg", "sparql", "sparql_bind"]


# ------------------------------------------------------------------ paths
def build(ast):
    k = ast[0]
    if k == "iri":
        return term(ast[1])
    if k == "inv":
        return InvPath(build(ast[1]))
    if k == "seq":
        return SequencePath(*[build(x) for x in ast[1]])
    if k == "alt":
        return AlternativePath(*[build(x) for x in ast[1]])
    if k == "mul":
        return MulPath(build(ast[1]), ast[2])
    if k == "neg":
        ms = [term(m[1]) if m[0] == "iri" else InvPath(term(m[1])) for m in ast[1]]
        return NegatedPath(ms[0]) if len(ms) == 1 else NegatedPath(AlternativePath(*ms))
    raise ValueError(ast)


def ast_of(p):
    """read the AST back from the rdflib object (what eval will really walk)"""
    if isinstance(p, URIRef):
        return ["iri", term_id(p)]
    if isinstance(p, InvPath):
        return ["inv", ast_of(p.arg)]
    if isinstance(p, SequencePath):
        return ["seq", [ast_of(x) for x in p.args]]
    if isinstance(p, AlternativePath):
        return ["alt", [ast_of(x) for x in p.args]]
    if isinstance(p, MulPath):
        return ["mul", ast_of(p.path), p.mod]
    if isinstance(p, NegatedPath):
        return ["neg", [["iri", term_id(a)] if isinstance(a, URIRef) else
                        ["inv", term_id(a.arg)] if isinstance(a, InvPath) else ["bad"] for a in p.args]]
    raise ValueError(p)


def sparql_path(ast):
    k = ast[0]
    if k == "iri":
        return term(ast[1]).n3()
    if k == "inv":
        return "(^" + sparql_path(ast[1]) + ")"
    if k == "seq":
        return "(" + "/".join(sparql_path(x) for x in ast[1]) + ")"
    if k == "alt":
        return "(" + "|".join(sparql_path(x) for x in ast[1]) + ")"
    if k == "mul":
        return "(" + sparql_path(ast[1]) + ast[2] + ")"
    if k == "neg":
        return "!(" + "|".join(("^" if m[0] == "inv" else "") + term(m[1]).n3() for m in ast[1]) + ")"
    raise ValueError(ast)


def depth(ast):
    k = ast[0]
    if k in ("iri", "neg"):
        return 1
    if k in ("inv", "mul"):
        return 1 + depth(ast[1])
    return 1 + max([depth(x) for x in ast[1]] or [0])


def contains(ast, kind):
    if ast[0] == kind:
        return True
    if ast[0] in ("inv", "mul"):
        return contains(ast[1], kind)
    if ast[0] in ("seq", "alt"):
        return any(contains(x, kind) for x in ast[1])
    return False


def subpaths(ast):
    if ast[0] in ("inv", "mul"):
        return [ast[1]]
    if ast[0] in ("seq", "alt"):
        return list(ast[1])
    return []


def gen_path(rng, d, preds, singles):
    """normalised AST: no seq directly inside seq, no alt directly inside alt"""
    if d <= 1 or rng.random() < 0.18:
        if rng.random() < 0.72:
            return ["iri", rng.choice(preds)]
        n = rng.choice([0, 1, 1, 1, 2, 2, 3])
        ms = [["inv" if rng.random() < 0.12 else "iri", rng.choice(preds + [1])] for _ in range(n)]
        return ["neg", ms]
    r = rng.random()
    if r < 0.16:
        return ["inv", gen_path(rng, d - 1, preds, singles)]
    if r < 0.48:
        return ["mul", gen_path(rng, d - 1, preds, singles), rng.choice(MODS)]
    kind = "seq" if r < 0.78 else "alt"
    n = rng.choice([2, 2, 2, 3, 3, 4])
    if singles and rng.random() < 0.05:
        n = 1
    items = []
    while len(items) < n:
        x = gen_path(rng, d - 1, preds, singles)
        if x[0] == kind:
            items.extend(x[1])
        else:
            items.append(x)
    return [kind, items]


def c_path(ast):
    k = ast[0]
    if k == "iri":
        return f"(Iri {cN(ast[1])})"
    if k == "inv":
        return f"(Inv {c_path(ast[1])})"
    if k == "seq":
        return "(Seq " + clist(c_path(x) for x in ast[1]) + ")"
    if k == "alt":
        return "(Alt " + clist(c_path(x) for x in ast[1]) + ")"
    if k == "mul":
        return f"(Mul {c_path(ast[1])} " + {"*": "ZeroOrMore", "+": "OneOrMore", "?": "ZeroOrOne"}[ast[2]] + ")"
    if k == "neg":
        return "(Neg " + clist("NBad" if m[0] == "bad" else ("NIri " if m[0] == "iri" else "NInv ") + cN(m[1])
                               for m in ast[1]) + ")"
    raise ValueError(ast)


def const_ok(t):
    return isinstance(t, (URIRef, Literal))


class C11(Suite):
    name = "paths"
    imports = "From RV Require Import Paths.Model."
    case_ty = "case"
    obs_ty = "obs"
    kf = "kf"
    kf_ids = {2: "F4c", 4: "F4e"}
    corr = ("paths.py InvPath/SequencePath/AlternativePath/MulPath/NegatedPath.eval, eval_path; Graph.triples, "
            "Graph.subjects/objects/subject_objects, ConjunctiveGraph.triples; SPARQL route: parser Path grammar, "
            "algebra.translatePath, evaluate.evalBGP")
    quick_n = 1600
    thorough_n = 40000
    timeout_s = 10.0

    # case = {"g": [[s,p,o]..], "path": ast, "s": id|None, "o": id|None, "via": str}

    def gen(self, rng, i):
        via = rng.choice(VIAS + ["triples"])
        k = rng.choice([1, 2, 2, 3, 3, 4, 5])
        vocab = rng.sample(NODE_VOCAB, k)
        if rng.random() < 0.5 and not (set(vocab) & {5, 6, 7, 14}):
            vocab[-1] = rng.choice([5, 6, 7, 14])
        preds = list(PREDS) if rng.random() < 0.8 else [3, 4, 1]
        subj_ok = [v for v in vocab if v not in LITS] or vocab
        nt = rng.choice([0, 1, 2, 3, 3, 4, 4, 5, 6, 8])
        g = []
        for _ in range(nt):
            s = rng.choice(vocab if rng.random() < 0.2 else subj_ok)
            r = rng.random()
            if r < 0.15:
                o = s                                  # self-loop
            elif r < 0.3 and g:
                t = rng.choice(g)                      # 2-cycle / back edge
                s, o = t[2], t[0]
            else:
                o = rng.choice(vocab)
            t = [s, rng.choice(preds), o]
            if t not in g:
                g.append(t)
        nodes = {t[0] for t in g} | {t[2] for t in g}
        outside = [x for x in range(1, len(TERM_POOL) + 1) if x not in nodes]

        def end():
            r = rng.random()
            if r < 0.45:
                return None
            if r < 0.85 and nodes:
                return rng.choice(sorted(nodes))
            return rng.choice(outside)

        d = rng.choice([1, 2, 2, 3, 3, 3, 4, 4])
        path = gen_path(rng, d, preds, singles=not via.startswith("sparql"))
        if rng.random() < 0.12:
            # closure over a cycle of length 2-4 with tails and chords, both ends unbound (or one): every start of
            # _all_fwd_paths runs its own search through the same cycle
            k2 = rng.choice([2, 3, 3, 4])
            cyc = rng.sample([1, 2, 12, 8, 13], k2)
            pp = rng.choice(preds)
            g = [[cyc[j], pp, cyc[(j + 1) % k2]] for j in range(k2)]
            for _ in range(rng.choice([0, 1, 2, 3])):
                t = [rng.choice(cyc), rng.choice(preds), rng.choice(cyc + [6, 5, 10])]
                if t not in g:
                    g.append(t)
            rng.shuffle(g)
            inner = rng.choice([["iri", pp], ["iri", pp], ["alt", [["iri", 3], ["iri", 4]]], ["inv", ["iri", pp]],
                                ["seq", [["iri", pp], ["iri", pp]]]])
            path = ["mul", inner, rng.choice(["+", "*", "+"])]
            if rng.random() < 0.3:
                path = rng.choice([["inv", path], ["seq", [path, ["iri", rng.choice(preds)]]], ["alt", [path, ["iri", 4]]]])
            nodes = {t[0] for t in g} | {t[2] for t in g}
            outside = [x for x in range(1, len(TERM_POOL) + 1) if x not in nodes]
            r = rng.random()
            ends = (None, None) if r < 0.7 else ((rng.choice(cyc), None) if r < 0.85 else (None, rng.choice(cyc)))
            return {"g": g, "path": path, "s": ends[0], "o": ends[1], "via": via,
                    "order": rng.choice(["list", "reversed", "shuffled"])}
        # "order": the triples are inserted into the store in another order than the model's list order, so the store
        # enumerates the matches differently (theorem C11_order_independent says the multiset must not care)
        return {"g": g, "path": path, "s": end(), "o": end(), "via": via,
                "order": rng.choice(["list", "list", "reversed", "shuffled"])}

    # ------------------------------------------------------------ implementation
    def run_impl(self, case):
        try:
            return ["ok", sorted(self._pairs(case))]
        except Exception as e:  # noqa: BLE001  (RecursionError included: it is an exception the caller sees, not a timeout)
            return ["raised", type(e).__name__ + ": " + str(e)[:80]]

    def on_timeout(self, case):
        return ["timeout"]

    def _pairs(self, case):
        via = case["via"]
        s = None if case["s"] is None else term(case["s"])
        o = None if case["o"] is None else term(case["o"])
        triples = [tuple(term(x) for x in t) for t in case["g"]]
        if case.get("order") == "reversed":
            triples.reverse()
        elif case.get("order") == "shuffled":
            import random
            random.Random(len(triples) * 7919 + sum(t[2] for t in case["g"])).shuffle(triples)
        if via == "cg":
            g = ConjunctiveGraph()  # default_union is True
            for i, t in enumerate(triples):
                g.get_context(GRAPH_POOL[i % 2]).add(t)
                if i % 3 == 0:
                    g.get_context(GRAPH_POOL[4]).add(t)
        else:
            g = Graph()
            for t in triples:
                g.add(t)
        if via.startswith("sparql"):
            return self._sparql(g, case, s, o)
        p = build(case["path"])
        if ast_of(p) != case["path"]:
            raise AssertionError("harness: path object differs from the case's AST")
        if via == "so":
            if s is not None and o is None:
                return [[term_id(s), term_id(y)] for y in g.objects(s, p)]
            if s is None and o is not None:
                return [[term_id(x), term_id(o)] for x in g.subjects(p, o)]
            if s is None and o is None:
                return [[term_id(x), term_id(y)] for x, y in g.subject_objects(p)]
        return [[term_id(x), term_id(y)] for x, _, y in g.triples((s, p, o))]

    def _sparql(self, g, case, s, o):
        bind = {}
        force = case["via"] == "sparql_bind"

        def pos(t, v):
            if t is None:
                return "?" + v
            if force or not const_ok(t):
                bind[v] = t
                return "?" + v
            return t.n3()

        q = "SELECT * WHERE { %s %s %s }" % (pos(s, "s"), sparql_path(case["path"]), pos(o, "o"))
        res = g.query(q, initBindings=bind)
        out = []
        for b in res.bindings:
            x = b.get(Variable("s"), s)
            y = b.get(Variable("o"), o)
            out.append([term_id(x), term_id(y)])
        return out

    # ------------------------------------------------------------ Coq text
    def coq_case(self, case):
        g = clist(ctuple(cN(t[0]), cN(t[1]), cN(t[2])) for t in case["g"])
        return ("{| c_g := " + g + "; c_path := " + c_path(case["path"]) + "; c_s := " + copt(case["s"], cN)
                + "; c_o := " + copt(case["o"], cN) + "; c_sparql := " + cbool(case["via"].startswith("sparql")) + " |}")

    def coq_obs(self, obs):
        if obs[0] == "ok":
            return "(Ok " + clist(ctuple(cN(a), cN(b)) for a, b in obs[1]) + ")"
        if obs[0] == "timeout":
            return "OutOfFuel"
        return "Raised"

    def nontrivial(self, case, obs):
        return depth(case["path"]) >= 2 or (obs[0] == "ok" and len(obs[1]) > 0)

    def features(self, case, obs):
        f = {"via_" + case["via"]: 1, "insertion_order_" + case.get("order", "list"): 1,
             "ends_" + ("S" if case["s"] is not None else "-") + ("O" if case["o"] is not None else "-"): 1,
             "top_" + case["path"][0]: 1, "depth_%d" % depth(case["path"]): 1}
        nodes = {t[0] for t in case["g"]} | {t[2] for t in case["g"]}
        for e in ("s", "o"):
            v = case[e]
            if v is not None:
                if v not in nodes:
                    f["end_outside_graph"] = f.get("end_outside_graph", 0) + 1
                if v in (5, 6, 7, 14):
                    f["end_falsy"] = f.get("end_falsy", 0) + 1
        if any(t[0] == t[2] for t in case["g"]):
            f["self_loop"] = 1
        if any([t[2], t[1], t[0]] in case["g"] and t[0] != t[2] for t in case["g"]):
            f["two_cycle"] = 1
        for k in ("mul", "neg", "seq", "alt", "inv"):
            if contains(case["path"], k):
                f["has_" + k] = 1
        if obs[0] == "ok":
            f["answer_nonempty"] = int(bool(obs[1]))
            f["answer_has_duplicates"] = int(len({tuple(x) for x in obs[1]}) != len(obs[1]))
        else:
            f["obs_" + obs[0] + ("_" + obs[1].split(":")[0] if len(obs) > 1 else "")] = 1
        return f

    def shrink(self, case):
        g = case["g"]
        for i in range(len(g)):
            yield dict(case, g=g[:i] + g[i + 1:])
        p = case["path"]
        for sp in subpaths(p):
            yield dict(case, path=sp)
        if p[0] in ("seq", "alt") and len(p[1]) > 2:
            for i in range(len(p[1])):
                yield dict(case, path=[p[0], p[1][:i] + p[1][i + 1:]])
        if p[0] in ("seq", "alt"):
            for i, x in enumerate(p[1]):
                for sp in subpaths(x):
                    if sp[0] != p[0]:
                        yield dict(case, path=[p[0], p[1][:i] + [sp] + p[1][i + 1:]])
        if p[0] in ("inv", "mul"):
            for sp in subpaths(p[1]):
                yield dict(case, path=[p[0], sp] + p[2:])
        if p[0] == "neg":
            for i in range(len(p[1])):
                yield dict(case, path=["neg", p[1][:i] + p[1][i + 1:]])
        if case["via"] != "triples" and not case["via"].startswith("sparql"):
            yield dict(case, via="triples")

    def sweep(self):
        """every path of depth <= 2 over a small alphabet (plus unary operators on top) x fixed graphs with a
        2-cycle, a self-loop, a chain into a falsy literal x ends {unbound, node, falsy node, outside} x two routes"""
        P, Q = ["iri", 3], ["iri", 4]
        atoms = [P, Q, ["neg", [["iri", 3]]], ["neg", []]]
        unary = [["inv", P]] + [["mul", a, m] for a in (P, Q) for m in MODS]
        lvl1 = atoms + unary
        binary = [[k, [a, b]] for k in ("seq", "alt") for a in lvl1[:8] for b in lvl1[:8] if a[0] != k and b[0] != k]
        tern = [["seq", [["mul", P, m1], ["mul", Q, m2], ["mul", P, m3]]]
                for m1 in MODS for m2 in MODS for m3 in MODS]
        lvl2 = lvl1 + binary + tern
        top = lvl2 + [["mul", x, m] for x in binary[::3] for m in MODS] + [["inv", x] for x in binary[::5]]
        graphs = [
            [[1, 3, 2], [2, 3, 1]],
            [[1, 3, 1], [1, 4, 6]],
            [[1, 3, 2], [2, 3, 12], [12, 4, 6], [6, 3, 1]],
            [[1, 3, 2], [1, 4, 2], [2, 3, 5]],
        ]
        ends = [None, 1, 6, 13]
        for gi, g in enumerate(graphs):
            for pi, p in enumerate(top):
                for s in ends:
                    for o in ends:
                        via = "sparql" if (pi + gi) % 4 == 0 else "triples"
                        yield {"g": g, "path": p, "s": s, "o": o, "via": via}



# ---------------------------------------------------------------------------
# Histories on ONE graph object: evaluations interleaved with mutations.
# case = {"kind": "graph"|"cg", "g": [[s,p,o]..], "steps": [step..]}
# step = ["eval", ast, s|None, o|None, via] | ["add", [s,p,o], how] | ["del", [s,p,o], how]
#        | ["swap", [s,p,o] (removed), [s,p,o] (added), how]     how = "api" | "update"
_ONE = C11()


def eval_on(g, path, s, o, via):
    """one evaluation of (s, path, o) on the live graph object g"""
    st = None if s is None else term(s)
    ot = None if o is None else term(o)
    if via.startswith("sparql"):
        return _ONE._sparql(g, {"via": via, "path": path}, st, ot)
    p = build(path)
    if ast_of(p) != path:
        raise AssertionError("harness: path object differs from the case's AST")
    if via == "so":
        if st is not None and ot is None:
            return [[term_id(st), term_id(y)] for y in g.objects(st, p)]
        if st is None and ot is not None:
            return [[term_id(x), term_id(ot)] for x in g.subjects(p, ot)]
        if st is None and ot is None:
            return [[term_id(x), term_id(y)] for x, y in g.subject_objects(p)]
    return [[term_id(x), term_id(y)] for x, _, y in g.triples((st, p, ot))]


def updatable(t):
    s, p, o = (term(x) for x in t)
    return isinstance(s, URIRef) and isinstance(o, (URIRef, Literal))


def n3t(t):
    return " ".join(term(x).n3() for x in t) + " ."


class C11H(Suite):
    name = "path_history"
    imports = "From RV Require Import Paths.Model."
    case_ty = "hcase"
    obs_ty = "hobs"
    model = "hmodel_obs"
    oeq = "hobs_eqb"
    spec = "hspec_ok"
    kf = "hkf"
    kf_ids = {2: "F4c", 4: "F4e"}
    corr = ("Graph.triples / subjects / objects / SPARQL evaluation of path patterns on one Graph object between "
            "Graph.add / Graph.remove / SPARQL Update calls (answers must follow the data)")
    quick_n = 700
    thorough_n = 12000
    timeout_s = 15.0

    def gen(self, rng, i):
        kind = "cg" if rng.random() < 0.15 else "graph"
        k = rng.choice([2, 3, 3, 4])
        vocab = rng.sample(NODE_VOCAB, k)
        preds = list(PREDS)
        subj_ok = [v for v in vocab if v not in LITS] or vocab

        def rtriple():
            s = rng.choice(vocab if rng.random() < 0.15 else subj_ok)
            return [s, rng.choice(preds), s if rng.random() < 0.1 else rng.choice(vocab)]

        g = []
        for _ in range(rng.choice([1, 2, 3, 3, 4, 5])):
            t = rtriple()
            if t not in g:
                g.append(t)
        cur = [list(t) for t in g]

        def end():
            r = rng.random()
            if r < 0.5:
                return None
            return rng.choice(vocab) if r < 0.9 else rng.choice([9, 11])

        def pattern():
            d = rng.choice([1, 2, 2, 3, 3])
            via = rng.choice(["triples", "triples", "so", "sparql", "sparql_bind"]) if kind == "graph" else "triples"
            while True:
                ast = gen_path(rng, d, preds, singles=False)
                # keep the open findings (F4c, F4e) out of the histories: they would only hide a stale answer of the same step
                if not contains_inv_member(ast) and not (ast[0] == "neg" and not ast[1] and via.startswith("sparql")):
                    break
            return [ast, end(), end(), via]

        pats = [pattern() for _ in range(rng.choice([1, 2, 2, 3]))]
        steps = []
        for _ in range(rng.choice([2, 3, 3, 4, 5])):
            pat = rng.choice(pats)
            steps.append(["eval"] + pat)
            if rng.random() < 0.3:
                steps.append(["eval"] + rng.choice(pats))
            how = "update" if (kind == "graph" and rng.random() < 0.35) else "api"
            r = rng.random()
            if r < 0.6 and cur:
                old = rng.choice(cur)
                new = rtriple()
                for _ in range(5):
                    if new not in cur:
                        break
                    new = rtriple()
                if new in cur:
                    continue
                if how == "update" and not (updatable(old) and updatable(new)):
                    how = "api"
                steps.append(["swap", old, new, how])
                cur.remove(old)
                cur.append(new)
            elif r < 0.8:
                new = rtriple()
                if how == "update" and not updatable(new):
                    how = "api"
                steps.append(["add", new, how])
                if new not in cur:
                    cur.append(new)
            elif cur:
                old = rng.choice(cur)
                if how == "update" and not updatable(old):
                    how = "api"
                steps.append(["del", old, how])
                cur.remove(old)
        steps.append(["eval"] + rng.choice(pats))
        if rng.random() < 0.5:
            steps.append(["eval"] + rng.choice(pats))
        return {"kind": kind, "g": g, "steps": steps}

    # ------------------------------------------------------------ implementation
    def run_impl(self, case):
        if case["kind"] == "cg":
            g = ConjunctiveGraph()
            ctx = [g.get_context(GRAPH_POOL[0]), g.get_context(GRAPH_POOL[1])]
            n = [0]

            def add(t):
                ctx[n[0] % 2].add(t)
                n[0] += 1
        else:
            g = Graph()
            add = g.add
        for t in case["g"]:
            add(tuple(term(x) for x in t))
        obs = []
        for st in case["steps"]:
            if st[0] == "eval":
                try:
                    obs.append(["ok", sorted(eval_on(g, st[1], st[2], st[3], st[4]))])
                except Exception as e:  # noqa: BLE001
                    obs.append(["raised", type(e).__name__ + ": " + str(e)[:80]])
            elif st[0] == "add":
                if st[2] == "update":
                    g.update("INSERT DATA { %s }" % n3t(st[1]))
                else:
                    add(tuple(term(x) for x in st[1]))
            elif st[0] == "del":
                if st[2] == "update":
                    g.update("DELETE DATA { %s }" % n3t(st[1]))
                else:
                    g.remove(tuple(term(x) for x in st[1]))
            else:
                if st[3] == "update":
                    g.update("DELETE { %s } INSERT { %s } WHERE { }" % (n3t(st[1]), n3t(st[2])))
                else:
                    g.remove(tuple(term(x) for x in st[1]))
                    add(tuple(term(x) for x in st[2]))
        return obs

    def on_timeout(self, case):
        return [["timeout"] for st in case["steps"] if st[0] == "eval"]

    # ------------------------------------------------------------ Coq text
    def coq_case(self, case):
        def tr(t):
            return ctuple(cN(t[0]), cN(t[1]), cN(t[2]))

        steps = []
        for st in case["steps"]:
            if st[0] == "eval":
                steps.append(f"HEval {c_path(st[1])} {copt(st[2], cN)} {copt(st[3], cN)} {cbool(st[4].startswith('sparql'))}")
            elif st[0] == "add":
                steps.append("HAdd " + tr(st[1]))
            elif st[0] == "del":
                steps.append("HDel " + tr(st[1]))
            else:
                steps.append("HDel " + tr(st[1]))
                steps.append("HAdd " + tr(st[2]))
        return "{| h_g := " + clist(tr(t) for t in case["g"]) + "; h_steps := " + clist(steps) + " |}"

    def coq_obs(self, obs):
        return clist(_ONE.coq_obs(o) for o in obs)

    def nontrivial(self, case, obs):
        kinds = [st[0] for st in case["steps"]]
        return kinds.count("eval") >= 2 and any(k != "eval" for k in kinds) and any(o[0] == "ok" and o[1] for o in obs)

    def features(self, case, obs):
        f = {"kind_" + case["kind"]: 1, "steps_total": len(case["steps"])}
        seen = set()
        for st in case["steps"]:
            f["step_" + st[0]] = f.get("step_" + st[0], 0) + 1
            if st[0] == "eval":
                key = str(st[1:4])
                if key in seen:
                    f["pattern_re_evaluated"] = f.get("pattern_re_evaluated", 0) + 1
                seen.add(key)
                f["eval_via_" + st[4]] = f.get("eval_via_" + st[4], 0) + 1
            elif st[-1] == "update":
                f["mutation_via_sparql_update"] = f.get("mutation_via_sparql_update", 0) + 1
        # did some pattern's answer change between two of its evaluations?
        last = {}
        for st, o in zip([s for s in case["steps"] if s[0] == "eval"], obs):
            key = str(st[1:4])
            if key in last and last[key] != o:
                f["answer_changed_on_re_evaluation"] = 1
            last[key] = o
        return f

    def shrink(self, case):
        st = case["steps"]
        for i in range(len(st)):
            yield dict(case, steps=st[:i] + st[i + 1:])
        g = case["g"]
        for i in range(len(g)):
            yield dict(case, g=g[:i] + g[i + 1:])
        for i, x in enumerate(st):
            if x[0] == "eval":
                for sp in subpaths(x[1]):
                    # the same pattern may be used by several steps: simplify all its occurrences together
                    yield dict(case, steps=[(["eval", sp] + y[2:]) if (y[0] == "eval" and y[1] == x[1]) else y for y in st])
                if x[4] != "triples":
                    yield dict(case, steps=st[:i] + [x[:4] + ["triples"]] + st[i + 1:])
            elif x[-1] == "update":
                yield dict(case, steps=st[:i] + [x[:-1] + ["api"]] + st[i + 1:])
        if case["kind"] == "cg":
            yield dict(case, kind="graph")

    def sweep(self):
        """eval; size-preserving swap; eval again - for every pattern of a small family and every swap on two graphs"""
        P = ["iri", 3]
        pats = [P, ["mul", P, "+"], ["mul", P, "*"], ["mul", P, "?"], ["inv", P], ["seq", [P, P]],
                ["alt", [P, ["iri", 4]]], ["neg", [["iri", 4]]], ["seq", [["mul", P, "+"], ["iri", 4]]]]
        graphs = [[[1, 3, 2], [2, 3, 12]], [[1, 3, 2], [2, 3, 12], [12, 4, 6]]]
        news = [[2, 3, 6], [12, 3, 1], [1, 4, 2], [2, 3, 2]]
        for g in graphs:
            for old in g:
                for new in news:
                    if new in g:
                        continue
                    for p in pats:
                        for s, o in ((None, None), (1, None), (None, 12), (1, 12)):
                            for via, how in (("triples", "api"), ("sparql", "update")):
                                if how == "update" and not (updatable(old) and updatable(new)):
                                    continue
                                ev = ["eval", p, s, o, via]
                                yield {"kind": "graph", "g": g, "steps": [ev, ["swap", old, new, how], ev]}


def contains_inv_member(ast):
    if ast[0] == "neg":
        return any(m[0] == "inv" for m in ast[1])
    if ast[0] in ("inv", "mul"):
        return contains_inv_member(ast[1])
    if ast[0] in ("seq", "alt"):
        return any(contains_inv_member(x) for x in ast[1])
    return False



# ---------------------------------------------------------------------------
# A path pattern asked of ONE graph of a ConjunctiveGraph / Dataset whose graphs hold DIFFERENT triples.
# case = {"kind": "cg"|"ds_union"|"ds_plain", "layout": [[gid, [[s,p,o]..]]..]  (gid 0 = default graph),
#         "target": gid (0 = no graph requested / the default graph), "route": str, "path": ast, "s": .., "o": ..}
# The Coq case carries the triple list the answer has to be computed over: the target graph's triples; for target 0 the
# union of all graphs (ConjunctiveGraph, Dataset(default_union=True)) or the default graph's triples (plain Dataset).
G_ROUTES = ["direct", "ctx_graph", "ctx_name", "quad", "contains", "sparql_graph"]


def effective(case):
    lay = dict((g, ts) for g, ts in case["layout"])
    if case["kind"] == "agg":
        # the aggregate enumerates its members one after the other: a triple held by two members is met twice
        return [t for _, ts in case["layout"] for t in ts]
    if case["target"] != 0:
        return lay.get(case["target"], [])
    if case["kind"] == "ds_plain":
        return lay.get(0, [])
    out = []
    for _, ts in case["layout"]:
        for t in ts:
            if t not in out:
                out.append(t)
    return out


class C11G(Suite):
    name = "path_in_graph"
    imports = "From RV Require Import Paths.Model."
    case_ty = "case"
    obs_ty = "obs"
    kf = "kf"
    kf_ids = {2: "F4c", 4: "F4e"}
    corr = ("ConjunctiveGraph.triples / Dataset.triples with a path predicate and a requested graph (context= Graph object or "
            "name, quad pattern, `in`), Graph.triples of a context graph, SPARQL GRAPH <g> { s path o }")
    quick_n = 700
    thorough_n = 12000
    timeout_s = 10.0

    def gen(self, rng, i):
        kind = rng.choice(["cg", "ds_union", "ds_plain", "ds_plain", "agg"])
        k = rng.choice([2, 3, 3, 4])
        vocab = rng.sample(NODE_VOCAB, k)
        preds = list(PREDS)
        subj_ok = [v for v in vocab if v not in LITS] or vocab
        pool = []
        for _ in range(rng.choice([2, 3, 4, 5, 6])):
            s = rng.choice(subj_ok)
            t = [s, rng.choice(preds), s if rng.random() < 0.08 else rng.choice(vocab)]
            if pool and rng.random() < 0.4:       # continue a chain started by an earlier triple
                u = rng.choice(pool)
                t = [u[2], rng.choice(preds), rng.choice(vocab)] if u[2] not in LITS else t
            if t not in pool:
                pool.append(t)
        gids = rng.sample([1, 2, 5, 4], rng.choice([2, 2, 3]))
        slots = gids + ([0] if rng.random() < 0.6 else [])
        lay = {g: [] for g in slots}
        for t in pool:                            # every triple in one graph, some shared by two
            g = rng.choice(slots)
            lay[g].append(t)
            if rng.random() < 0.2:
                h = rng.choice(slots)
                if t not in lay[h]:
                    lay[h].append(t)
        r = rng.random()
        target = 0 if (r < 0.2 or kind == "agg") else rng.choice(gids)
        if kind == "agg":
            # ReadOnlyGraphAggregate over the layout's graphs as separate Graph objects: the pattern is asked of the
            # aggregate as a whole (triples, SPARQL on the aggregate)
            route = rng.choice(["none", "none", "sparql_agg", "contains"])
        elif target == 0:
            route = rng.choice(["none", "none", "ctx_graph", "contains"])
        else:
            route = rng.choice(G_ROUTES)
            if route == "sparql_graph" and (target == 4 or kind == "cg"):
                route = "quad"                    # blank-node graph names cannot be written; GRAPH needs a Dataset-like store
        nodes = {x for t in pool for x in (t[0], t[2])}

        def end():
            q = rng.random()
            if q < 0.5:
                return None
            return rng.choice(sorted(nodes)) if (q < 0.92 and nodes) else rng.choice([9, 11])

        while True:
            path = gen_path(rng, rng.choice([2, 2, 3, 3]), preds, singles=False)
            if not contains_inv_member(path):
                break
        return {"kind": kind, "layout": [[g, lay[g]] for g in slots], "target": target, "route": route,
                "path": path, "s": end(), "o": end()}

    # ------------------------------------------------------------ implementation
    def run_impl(self, case):
        try:
            return ["ok", sorted(self._pairs(case))]
        except Exception as e:  # noqa: BLE001  (RecursionError included: it is an exception the caller sees, not a timeout)
            return ["raised", type(e).__name__ + ": " + str(e)[:80]]

    def on_timeout(self, case):
        return ["timeout"]

    def _pairs_agg(self, case):
        from rdflib.graph import ReadOnlyGraphAggregate
        members = []
        for gid, ts in case["layout"]:
            m = Graph()
            for t in ts:
                m.add(tuple(term(x) for x in t))
            members.append(m)
        agg = ReadOnlyGraphAggregate(members)
        s = None if case["s"] is None else term(case["s"])
        o = None if case["o"] is None else term(case["o"])
        if case["route"] == "sparql_agg":
            return _ONE._sparql(agg, {"via": "sparql", "path": case["path"]}, s, o)
        p = build(case["path"])
        if ast_of(p) != case["path"]:
            raise AssertionError("harness: path object differs from the case's AST")
        out = [[term_id(x), term_id(y)] for x, _, y in agg.triples((s, p, o))]
        if case["route"] == "contains" and ((s, p, o) in agg) != bool(out):
            raise AssertionError("(s, path, o) in aggregate disagrees with aggregate.triples((s, path, o))")
        return out

    def _pairs(self, case):
        kind = case["kind"]
        if kind == "agg":
            return self._pairs_agg(case)
        cg = ConjunctiveGraph() if kind == "cg" else Dataset(default_union=(kind == "ds_union"))
        for gid, ts in case["layout"]:
            if gid != 0 and kind != "cg":
                cg.graph(GRAPH_POOL[gid - 1])     # a named graph of the dataset even when it holds no triple (GRAPH <g> {..})
            for t in ts:
                tt = tuple(term(x) for x in t)
                if gid == 0:
                    cg.add(tt)
                else:
                    cg.get_context(GRAPH_POOL[gid - 1]).add(tt)
        s = None if case["s"] is None else term(case["s"])
        o = None if case["o"] is None else term(case["o"])
        route, target = case["route"], case["target"]
        name = None if target == 0 else GRAPH_POOL[target - 1]
        ctx = cg.default_context if target == 0 else cg.get_context(name)
        if route == "sparql_graph":
            q = "SELECT * WHERE { GRAPH %s { %s %s %s } }" % (
                name.n3(), "?s" if s is None or not const_ok(s) else s.n3(), sparql_path(case["path"]),
                "?o" if o is None or not const_ok(o) else o.n3())
            bind = {}
            if s is not None and not const_ok(s):
                bind["s"] = s
            if o is not None and not const_ok(o):
                bind["o"] = o
            res = cg.query(q, initBindings=bind)
            return [[term_id(b.get(Variable("s"), s)), term_id(b.get(Variable("o"), o))] for b in res.bindings]
        p = build(case["path"])
        if ast_of(p) != case["path"]:
            raise AssertionError("harness: path object differs from the case's AST")
        if route == "none":
            it = cg.triples((s, p, o))
        elif route == "direct":
            it = ctx.triples((s, p, o))
        elif route == "ctx_graph":
            it = cg.triples((s, p, o), context=ctx)
        elif route == "ctx_name":
            it = cg.triples((s, p, o), context=name)
        else:
            it = cg.triples((s, p, o, ctx))
        out = [[term_id(x), term_id(y)] for x, _, y in it]
        if route == "contains":
            # `in` only tells whether there is an answer: it has to agree with the quad pattern's answer, which is compared
            if ((s, p, o, ctx) in cg) != bool(out):
                raise AssertionError("(s, path, o, g) in cg disagrees with triples((s, path, o, g))")
        return out

    # ------------------------------------------------------------ Coq text
    def coq_case(self, case):
        flat = {"g": effective(case), "path": case["path"], "s": case["s"], "o": case["o"],
                "via": "sparql" if case["route"] in ("sparql_graph", "sparql_agg") else "triples"}
        return _ONE.coq_case(flat)

    def coq_obs(self, obs):
        return _ONE.coq_obs(obs)

    def nontrivial(self, case, obs):
        allt = [t for _, ts in case["layout"] for t in ts]
        if case["kind"] == "agg":
            return obs[0] == "ok" and sum(1 for _, ts in case["layout"] if ts) >= 2
        return obs[0] == "ok" and len(effective(case)) < len({tuple(t) for t in allt})

    def features(self, case, obs):
        f = {"kind_" + case["kind"]: 1, "route_" + case["route"]: 1,
             "target_" + ("default_or_none" if case["target"] == 0 else "named"): 1,
             "graphs_%d" % len(case["layout"]): 1}
        eff = effective(case)
        other = [t for _, ts in case["layout"] for t in ts if t not in eff]
        if other:
            f["other_graphs_have_more_triples"] = 1
            # a triple elsewhere that continues from a node of the requested graph: the situation the restriction matters in
            en = {x for t in eff for x in (t[0], t[2])}
            if any(t[0] in en or t[2] in en for t in other):
                f["other_graphs_continue_the_requested_graph"] = 1
        if obs[0] == "ok":
            f["answer_nonempty"] = int(bool(obs[1]))
        return f

    def shrink(self, case):
        lay = case["layout"]
        for i, (g, ts) in enumerate(lay):
            for j in range(len(ts)):
                yield dict(case, layout=lay[:i] + [[g, ts[:j] + ts[j + 1:]]] + lay[i + 1:])
        for sp in subpaths(case["path"]):
            yield dict(case, path=sp)
        p = case["path"]
        if p[0] in ("seq", "alt") and len(p[1]) > 2:
            for i in range(len(p[1])):
                yield dict(case, path=[p[0], p[1][:i] + p[1][i + 1:]])
        if p[0] in ("inv", "mul"):
            for sp in subpaths(p[1]):
                yield dict(case, path=[p[0], sp] + p[2:])
        for e in ("s", "o"):
            if case[e] is not None:
                yield dict(case, **{e: None})

    def sweep(self):
        """g1 = {a p b}, g2 = {b p c, b q 0}, default = {c p a}: every route x kind x target x small path family x ends"""
        lay = [[1, [[1, 3, 2]]], [2, [[2, 3, 12], [2, 4, 6]]], [0, [[12, 3, 1]]]]
        P, Q = ["iri", 3], ["iri", 4]
        paths = [["mul", P, "+"], ["mul", P, "*"], ["mul", P, "?"], ["seq", [P, Q]], ["seq", [P, P]], ["inv", P],
                 ["alt", [P, Q]], ["neg", [["iri", 4]]], ["seq", [["mul", P, "*"], Q]], ["mul", ["inv", P], "+"]]
        for route in ("none", "sparql_agg"):
            for p in paths:
                for s, o in ((None, None), (1, None), (None, 12), (2, 6), (1, 12)):
                    yield {"kind": "agg", "layout": lay, "target": 0, "route": route, "path": p, "s": s, "o": o}
                    yield {"kind": "agg", "layout": lay + [[5, [[1, 3, 2]]]], "target": 0, "route": route, "path": p, "s": s, "o": o}
        for kind in ("cg", "ds_union", "ds_plain"):
            for target in (0, 1, 2):
                routes = ["none", "ctx_graph", "contains"] if target == 0 else [
                    r for r in G_ROUTES if not (r == "sparql_graph" and kind == "cg")]
                for route in routes:
                    for p in paths:
                        for s, o in ((None, None), (1, None), (None, 12), (2, 6), (1, 12)):
                            yield {"kind": kind, "layout": lay, "target": target, "route": route, "path": p, "s": s, "o": o}



# ---------------------------------------------------------------------------
# The SPARQL front end: parser.py's tree for the Path grammar and algebra.translatePath.
# case = {"g": [[s,p,o]..], "tree": tree}
# tree = ["iri", p] | ["neg", [["iri"|"inv", p]..], bare] | ["alt", [seq..]] | ["seq", [elt..]]
#        | ["elt", primary, mod|None] | ["invelt", elt]          (layered as the grammar rules [88]-[96])
def render_tree(t):
    k = t[0]
    if k == "iri":
        return term(t[1]).n3()
    if k == "neg":
        ms = [("^" if m[0] == "inv" else "") + term(m[1]).n3() for m in t[1]]
        if len(ms) == 1 and len(t) > 2 and t[2]:
            return "!" + ms[0]                      # [95] first alternative: a single member without parentheses
        return "!(" + "|".join(ms) + ")"
    if k == "alt":
        return "|".join(render_tree(x) for x in t[1])
    if k == "seq":
        return "/".join(render_tree(x) for x in t[1])
    if k == "elt":
        prim = t[1]
        txt = "(" + render_tree(prim) + ")" if prim[0] == "alt" else render_tree(prim)
        return txt + (t[2] or "")
    if k == "invelt":
        return "^" + render_tree(t[1])
    raise ValueError(t)


def c_tree(t):
    k = t[0]
    if k == "iri":
        return f"(TIri {cN(t[1])})"
    if k == "neg":
        return "(TNeg " + clist(("NIri " if m[0] == "iri" else "NInv ") + cN(m[1]) for m in t[1]) + ")"
    if k == "alt":
        return "(TAlt " + clist(c_tree(x) for x in t[1]) + ")"
    if k == "seq":
        return "(TSeq " + clist(c_tree(x) for x in t[1]) + ")"
    if k == "elt":
        m = {"*": "(Some ZeroOrMore)", "+": "(Some OneOrMore)", "?": "(Some ZeroOrOne)", None: "None"}[t[2]]
        return f"(TElt {c_tree(t[1])} {m})"
    if k == "invelt":
        return f"(TInvElt {c_tree(t[1])})"
    raise ValueError(t)


def find_predicate(node):
    """the predicate of the single triple pattern in a translated query algebra"""
    from rdflib.plugins.sparql.parserutils import CompValue
    if isinstance(node, CompValue):
        if "triples" in node and node["triples"]:
            return node["triples"][0][1]
        for v in node.values():
            r = find_predicate(v)
            if r is not None:
                return r
    elif isinstance(node, (list, tuple)):
        for v in node:
            r = find_predicate(v)
            if r is not None:
                return r
    return None


class C11T(Suite):
    name = "translate"
    imports = "From RV Require Import Paths.TransModel."
    case_ty = "tcase"
    obs_ty = "tobs"
    model = "tmodel_obs"
    oeq = "tobs_eqb"
    spec = "tspec_ok"
    kf = "tkf"
    kf_ids = {4: "F4e"}
    corr = "parser.py Path grammar [88]-[96], algebra.translatePath (via traverse visitPost), SequencePath/AlternativePath/NegatedPath constructors"
    quick_n = 600
    thorough_n = 12000
    timeout_s = 10.0

    def gen(self, rng, i):
        preds = [3, 4] if rng.random() < 0.8 else [3, 4, 1]

        def primary(d):
            r = rng.random()
            if d <= 0 or r < 0.45:
                if rng.random() < 0.8:
                    return ["iri", rng.choice(preds)]
                n = rng.choice([0, 1, 1, 1, 2, 2, 3]) if rng.random() < 0.3 else rng.choice([1, 1, 2, 3])
                ms = [["inv" if rng.random() < 0.06 else "iri", rng.choice(preds)] for _ in range(n)]
                return ["neg", ms, rng.random() < 0.5]
            return alt(d - 1)

        def elt(d):
            return ["elt", primary(d), rng.choice([None, None, None, "*", "+", "?"])]

        def eltorinv(d):
            return ["invelt", elt(d)] if rng.random() < 0.2 else elt(d)

        def seq(d):
            return ["seq", [eltorinv(d) for _ in range(rng.choice([1, 1, 2, 2, 3]))]]

        def alt(d):
            return ["alt", [seq(d) for _ in range(rng.choice([1, 1, 1, 2, 2, 3]))]]

        vocab = rng.sample([1, 2, 12, 6, 5], rng.choice([2, 3]))
        g = []
        for _ in range(rng.choice([1, 2, 3, 4])):
            t = [rng.choice([v for v in vocab if v not in LITS] or [1]), rng.choice(preds), rng.choice(vocab)]
            if t not in g:
                g.append(t)
        return {"g": g, "tree": alt(rng.choice([0, 1, 1, 2, 2, 3]))}

    def run_impl(self, case):
        from rdflib.plugins.sparql import prepareQuery
        try:
            q = prepareQuery("SELECT * WHERE { ?s %s ?o }" % render_tree(case["tree"]))
        except Exception as e:  # noqa: BLE001
            return ["raised", type(e).__name__ + ": " + str(e)[:80]]
        p = find_predicate(q.algebra)
        if p is None:
            return ["raised", "harness: no triple pattern in the algebra"]
        ast = ast_of(p)
        return ["ok", ast]

    def coq_case(self, case):
        g = clist(ctuple(cN(t[0]), cN(t[1]), cN(t[2])) for t in case["g"])
        return "{| t_g := " + g + "; t_tree := " + c_tree(case["tree"]) + " |}"

    def coq_obs(self, obs):
        return "(Ok " + c_path(obs[1]) + ")" if obs[0] == "ok" else "Raised"

    def nontrivial(self, case, obs):
        return obs[0] == "ok" and obs[1][0] != "iri"

    def features(self, case, obs):
        txt = render_tree(case["tree"])
        f = {"chars": len(txt), "has_group": int("(" in txt.replace("!(", "")), "has_neg": int("!" in txt),
             "has_inverse": int("^" in txt)}
        if obs[0] == "ok":
            f["top_" + obs[1][0]] = 1
        else:
            f["raised"] = 1
        return f

    def shrink(self, case):
        g = case["g"]
        for i in range(len(g)):
            yield dict(case, g=g[:i] + g[i + 1:])

        def subs(t):
            """smaller trees of the same grammar layer"""
            k = t[0]
            if k in ("alt", "seq"):
                if len(t[1]) > 1:
                    for i in range(len(t[1])):
                        yield [k, t[1][:i] + t[1][i + 1:]]
                for i, x in enumerate(t[1]):
                    for y in subs(x):
                        yield [k, t[1][:i] + [y] + t[1][i + 1:]]
            elif k == "elt":
                if t[2] is not None:
                    yield ["elt", t[1], None]
                if t[1][0] == "alt":
                    yield ["elt", ["iri", 3], t[2]]
                    for y in subs(t[1]):
                        yield ["elt", y, t[2]]
                elif t[1][0] == "neg" and len(t[1][1]) > 1:
                    for i in range(len(t[1][1])):
                        yield ["elt", ["neg", t[1][1][:i] + t[1][1][i + 1:], False], t[2]]
            elif k == "invelt":
                yield t[1]
                for y in subs(t[1]):
                    yield ["invelt", y]

        for y in subs(case["tree"]):
            yield dict(case, tree=y)

    def sweep(self):
        P, Q = ["iri", 3], ["iri", 4]
        prims = [P, Q, ["neg", [["iri", 3]], True], ["neg", [["iri", 3], ["iri", 4]], False]]
        elts = [["elt", p, m] for p in prims[:3] for m in (None, "*", "+", "?")] + [["invelt", ["elt", P, None]],
                                                                                    ["invelt", ["elt", Q, "+"]]]
        seqs = [["seq", [e]] for e in elts] + [["seq", [a, b]] for a in elts[::3] for b in elts[::4]]
        g = [[1, 3, 2], [2, 4, 12], [2, 3, 1]]
        for s1 in seqs:
            yield {"g": g, "tree": ["alt", [s1]]}
            for m in (None, "*", "?"):
                yield {"g": g, "tree": ["alt", [["seq", [["elt", ["alt", [s1]], m]]]]]}
                yield {"g": g, "tree": ["alt", [["seq", [["elt", ["alt", [s1, seqs[1]]], m], ["elt", P, None]]]]]}
        for s1 in seqs[:20]:
            for s2 in seqs[5:25:2]:
                yield {"g": g, "tree": ["alt", [s1, s2]]}
                yield {"g": g, "tree": ["alt", [["seq", [["elt", ["alt", [s1]], None], ["elt", ["alt", [s2]], None]]]]]}



# ---------------------------------------------------------------------------
# evaluate.evalBGP with the same variable at both ends:  SELECT ?x WHERE { ?x path ?x }
class C11S(C11):
    name = "same_var"
    model = "model_obs_same"
    spec = "spec_ok_same"
    corr = "evaluate.evalBGP (binding of the pattern's variables, AlreadyBound) on ?x path ?x; parser; translatePath; paths.py"
    quick_n = 300
    thorough_n = 5000

    def gen(self, rng, i):
        c = C11.gen(self, rng, i)
        c.update(s=None, o=None, via="sparql_same")
        if c["path"][0] in ("seq", "alt") and len(c["path"][1]) == 1:      # single-part lists cannot be written as text
            c["path"] = c["path"][1][0]
        return c

    def _pairs(self, case):
        g = Graph()
        for t in case["g"]:
            g.add(tuple(term(x) for x in t))
        res = g.query("SELECT ?x WHERE { ?x %s ?x }" % sparql_path(normal(case["path"])))
        return [[term_id(b[Variable("x")]), term_id(b[Variable("x")])] for b in res.bindings]

    def nontrivial(self, case, obs):
        return obs[0] == "ok" and len(obs[1]) > 0

    def sweep(self):
        return []


def normal(ast):
    """drop single-part sequences / alternatives (they have no text form); the Coq case gets the same tree"""
    if ast[0] in ("inv", "mul"):
        return [ast[0], normal(ast[1])] + ast[2:]
    if ast[0] in ("seq", "alt"):
        items = [normal(x) for x in ast[1]]
        return items[0] if len(items) == 1 else [ast[0], items]
    return ast



# ---------------------------------------------------------------------------
# Closures over chains much longer than the interpreter's recursion limit (finding F4f, repaired): the number of
# answers is compared with the model's [eval] on the same chain and with the closed form.
class C11D(Suite):
    name = "deep_chain"
    imports = "From RV Require Import Paths.Model."
    case_ty = "dcase"
    obs_ty = "dobs"
    model = "dmodel_obs"
    oeq = "dobs_eqb"
    spec = "dspec_ok"
    corr = "MulPath._fwd / _bwd (explicit-stack search) on chains of 1200-2500 triples; sys.getrecursionlimit() is 1000"
    quick_n = 4
    thorough_n = 14
    timeout_s = 60.0
    CASES = [(1200, "*", True, False), (1500, "+", False, True), (1300, "+", True, True), (1100, "*", False, True),
             (2500, "*", True, False), (2500, "+", False, True), (2000, "*", True, True), (1800, "+", True, False),
             (2200, "?", True, False), (1600, "?", False, True), (60, "+", False, False), (45, "*", False, False),
             (0, "*", True, True), (1, "?", False, False)]

    def gen(self, rng, i):
        n, m, sb, ob = self.CASES[i % len(self.CASES)]
        return {"n": n, "mod": m, "s": sb, "o": ob}

    def run_impl(self, case):
        node = [URIRef("http://e/n%d" % i) for i in range(case["n"] + 1)]
        g = Graph()
        for i in range(case["n"]):
            g.add((node[i], TERM_POOL[2], node[i + 1]))
        try:
            it = g.triples((node[0] if case["s"] else None, MulPath(TERM_POOL[2], case["mod"]),
                            node[-1] if case["o"] else None))
            return ["ok", sum(1 for _ in it)]
        except Exception as e:  # noqa: BLE001
            return ["raised", type(e).__name__]

    def on_timeout(self, case):
        return ["timeout"]

    def coq_case(self, case):
        m = {"*": "ZeroOrMore", "+": "OneOrMore", "?": "ZeroOrOne"}[case["mod"]]
        return "{| d_len := %d%%nat; d_mod := %s; d_s := %s; d_o := %s |}" % (case["n"], m, cbool(case["s"]), cbool(case["o"]))

    def coq_obs(self, obs):
        if obs[0] == "ok":
            return "(Ok %s)" % cN(obs[1])
        return "OutOfFuel" if obs[0] == "timeout" else "Raised"

    def nontrivial(self, case, obs):
        return case["n"] > 1000

    def features(self, case, obs):
        import sys as _sys
        return {"chain_longer_than_recursion_limit": int(case["n"] > _sys.getrecursionlimit()), "obs_" + obs[0]: 1}

    def shrink(self, case):
        if case["n"] > 1:
            yield dict(case, n=case["n"] // 2)
            yield dict(case, n=case["n"] - 1)



# ---------------------------------------------------------------------------
# evaluate.evalBGP on basic graph patterns of two or three triple patterns, plain and path predicates mixed.
# case = {"g": [[s,p,o]..], "init": [[var, term]..], "pats": [[end, ast, end]..]}   end = ["v", n] | ["c", term]
# The patterns are listed in the order in which rdflib evaluates them (read back from the translated algebra:
# algebra.reorderTriples may move patterns); "text" keeps the order they were written in.
def c_end(e):
    return f"(EV {cN(e[1])})" if e[0] == "v" else f"(EC {cN(e[1])})"


class C11B(Suite):
    name = "bgp"
    imports = "From RV Require Import Paths.BgpModel."
    case_ty = "bcase"
    obs_ty = "bobs"
    model = "bmodel_obs"
    oeq = "bobs_eqb"
    spec = "bspec_ok"
    corr = "evaluate.evalBGP (pattern loop, substitution of earlier bindings, AlreadyBound), algebra.reorderTriples (order read back), paths.py"
    quick_n = 500
    thorough_n = 8000
    timeout_s = 10.0

    def gen(self, rng, i):
        k = rng.choice([2, 3, 3, 4])
        vocab = rng.sample(NODE_VOCAB, k)
        if rng.random() < 0.5 and not (set(vocab) & {5, 6, 7, 14}):
            vocab[-1] = rng.choice([5, 6, 7, 14])
        preds = list(PREDS)
        subj_ok = [v for v in vocab if v not in LITS] or vocab
        g = []
        for _ in range(rng.choice([3, 4, 5, 6, 7, 8])):
            s = rng.choice(vocab if rng.random() < 0.25 else subj_ok)
            t = [s, rng.choice(preds), s if rng.random() < 0.1 else rng.choice(vocab)]
            if g and rng.random() < 0.3:
                t = [rng.choice(g)[2], rng.choice(preds), rng.choice(vocab)]
            if t not in g:
                g.append(t)
        nodes = sorted({x for t in g for x in (t[0], t[2])})

        def const():
            r = rng.random()
            pool = [x for x in (nodes if r < 0.8 else [9, 11, 5, 6, 7, 10, 12]) if x not in (8, 13)]   # no blank nodes in text
            return ["c", rng.choice(pool or [1])]

        npat = rng.choice([2, 2, 3])
        nv = rng.choice([2, 2, 3, 3])
        pats = []
        for j in range(npat):
            last = []

            def end():
                if rng.random() < 0.72:
                    v = rng.randint(1, nv)
                    if last and last[0] == v and rng.random() < 0.85:      # mostly different variables at the two ends
                        v = v % nv + 1
                    last.append(v)
                    return ["v", v]
                return const()
            if rng.random() < 0.45:
                ast = ["iri", rng.choice(preds)]
            else:
                while True:
                    ast = gen_path(rng, rng.choice([2, 2, 3]), preds, singles=False)
                    if not contains_inv_member(ast) and not contains_empty_neg(ast):
                        break
            pats.append([end(), ast, end()])
        used = sorted({e[1] for p_ in pats for e in (p_[0], p_[2]) if e[0] == "v"})
        init = []
        if used and rng.random() < 0.3:
            r = rng.random()
            val = rng.choice(nodes) if (r < 0.7 and nodes) else rng.choice([9, 11, 5, 6, 7, 13])
            init = [[rng.choice(used), val]]
        return {"g": g, "init": init, "pats": pats, "text": pats}

    def _query(self, case):
        from rdflib.plugins.sparql import prepareQuery

        def etxt(e):
            return "?v%d" % e[1] if e[0] == "v" else term(e[1]).n3()
        body = " . ".join("%s %s %s" % (etxt(s), sparql_path(normal(a)), etxt(o)) for s, a, o in case["text"])
        return prepareQuery("SELECT * WHERE { %s }" % body)

    def evaluation_order(self, case):
        """the case with its patterns in the order of the translated algebra"""
        q = self._query(case)
        triples = find_triples(q.algebra)

        def eback(x):
            return ["v", int(str(x)[1:])] if isinstance(x, Variable) else ["c", term_id(x)]
        ordered = [[eback(s), ast_of(p), eback(o)] for s, p, o in triples]
        want = sorted(json_key([s, normal(a), o]) for s, a, o in case["text"])
        if sorted(json_key(x) for x in ordered) != want:
            raise AssertionError("harness: the algebra's triple patterns are not the written ones")
        return q, ordered

    def finish(self, case):
        try:
            _, ordered = self.evaluation_order(case)
        except Exception:  # noqa: BLE001
            # the translated algebra cannot be read back (a changed translator): keep the written order; run_impl meets
            # the same failure and reports it as an error observation, which never equals a model answer
            return case
        return dict(case, pats=ordered)

    def run_impl(self, case):
        try:
            q, ordered = self.evaluation_order(case)
            if ordered != case["pats"]:
                raise AssertionError("harness: evaluation order changed between generation and run")
            g = Graph()
            for t in case["g"]:
                g.add(tuple(term(x) for x in t))
            res = g.query(q, initBindings={"v%d" % v: term(t) for v, t in case["init"]})
            return ["ok", sorted(sorted([int(str(k)[1:]), term_id(v)] for k, v in b.items()) for b in res.bindings)]
        except Exception as e:  # noqa: BLE001
            return ["raised", type(e).__name__ + ": " + str(e)[:80]]

    def on_timeout(self, case):
        return ["timeout"]

    def coq_case(self, case):
        g = clist(ctuple(cN(t[0]), cN(t[1]), cN(t[2])) for t in case["g"])
        init = clist(ctuple(cN(v), cN(t)) for v, t in case["init"])
        pats = clist(ctuple(c_end(s), c_path(a), c_end(o)) for s, a, o in case["pats"])
        return "{| b_g := " + g + "; b_init := " + init + "; b_pats := " + pats + " |}"

    def coq_obs(self, obs):
        if obs[0] == "ok":
            return "(Ok " + clist(clist(ctuple(cN(v), cN(t)) for v, t in b) for b in obs[1]) + ")"
        return "OutOfFuel" if obs[0] == "timeout" else "Raised"

    def nontrivial(self, case, obs):
        return obs[0] == "ok" and any(a[0] != "iri" for _, a, _ in case["pats"])

    def features(self, case, obs):
        f = {"patterns_%d" % len(case["pats"]): 1, "init_bindings": int(bool(case["init"])),
             "reordered_by_algebra": int(case["pats"] != [[s, normal(a), o] for s, a, o in case["text"]]),
             "path_patterns": sum(1 for _, a, _ in case["pats"] if a[0] != "iri"),
             "plain_patterns": sum(1 for _, a, _ in case["pats"] if a[0] == "iri")}
        seen = set()
        for s, _, o in case["pats"]:
            for e in (s, o):
                if e[0] == "v" and e[1] in seen:
                    f["end_bound_by_earlier_pattern"] = 1
            if s[0] == "v" and o[0] == "v" and s[1] == o[1]:
                f["same_variable_both_ends"] = 1
            seen |= {e[1] for e in (s, o) if e[0] == "v"}
        if any(e[0] == "c" and e[1] in (5, 6, 7, 14) for s, _, o in case["pats"] for e in (s, o)) or any(t in (5, 6, 7, 14) for _, t in case["init"]):
            f["falsy_constant_or_binding"] = 1
        if obs[0] == "ok":
            f["solutions_nonempty"] = int(bool(obs[1]))
        else:
            f["obs_" + obs[0]] = 1
        return f

    def shrink(self, case):
        g = case["g"]
        for i in range(len(g)):
            yield dict(case, g=g[:i] + g[i + 1:])
        if case["init"]:
            yield dict(case, init=[])
        t = case["text"]
        if len(t) > 1:
            for i in range(len(t)):
                try:
                    yield self.finish(dict(case, text=t[:i] + t[i + 1:]))
                except Exception:  # noqa: BLE001
                    pass
        for i, (s, a, o) in enumerate(t):
            for sp in subpaths(a):
                try:
                    yield self.finish(dict(case, text=t[:i] + [[s, sp, o]] + t[i + 1:]))
                except Exception:  # noqa: BLE001
                    pass


def json_key(x):
    import json
    return json.dumps(x)


def find_triples(node):
    from rdflib.plugins.sparql.parserutils import CompValue
    if isinstance(node, CompValue):
        if "triples" in node and node["triples"]:
            return list(node["triples"])
        for v in node.values():
            r = find_triples(v)
            if r:
                return r
    elif isinstance(node, (list, tuple)):
        for v in node:
            r = find_triples(v)
            if r:
                return r
    return []


def contains_empty_neg(ast):
    if ast[0] == "neg":
        return not ast[1]
    if ast[0] in ("inv", "mul"):
        return contains_empty_neg(ast[1])
    if ast[0] in ("seq", "alt"):
        return any(contains_empty_neg(x) for x in ast[1])
    return False


_B_GEN = C11B.gen


def _bgen(self, rng, i):
    return self.finish(_B_GEN(self, rng, i))


C11B.gen = _bgen

SUITES = [C11(), C11H(), C11G(), C11T(), C11S(), C11D(), C11B()]
