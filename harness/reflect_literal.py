"""T1 for C09: the datatype tables of rdflib/term.py, reflected into coq/Gen/Tables_literal.v.

* one row per key of XSDToPython: (local name, namespace tag, converter tag, checker description).
  The converter is identified by object identity (int / Decimal / _parseBoolean / None / anything else);
  the well-formedness checker registered for the key in _check_well_formed_types (default
  _well_formed_by_value) is described *by probing it*: the interval of integers it accepts, whether it
  accepts the empty lexical form, whether it looks at the value at all, or - for checkers that look at the
  lexical form only - which of a fixed candidate list of forms it accepts.
* the rule list _GenericPythonToXSDRules (order matters: bool before int).
* the membership of the datatypes in _NUMERIC_LITERAL_TYPES.
* CPython's character classes used by int()/Decimal()/str.strip(): str.isspace and the decimal-digit runs.
Theorems in coq/Literal/Proofs.v compute on these definitions, so a changed table re-poses them."""
from __future__ import annotations

import sys
import unicodedata
from decimal import Decimal

XSD = "http://www.w3.org/2001/XMLSchema#"
RDF = "http://www.w3.org/1999/02/22-rdf-syntax-ns#"

BOOL_CANDIDATES = ["true", "false", "1", "0", "TRUE", "True", "FALSE", "False", "", " true", "true ", "yes", "no",
                   "t", "f", "00", "01", "10", "2", "-0", "+1", "tru", "truee"]
BIG = 1 << 80


def cstr(s):
    return "[" + "; ".join(f"{ord(c)}%N" for c in s) + "]"


def _copt_z(v):
    return "None" if v is None else f"(Some ({v})%Z)"


def _edge(f, inside, outside):
    """largest-magnitude accepted integer between inside (accepted) and outside (rejected)"""
    while abs(outside - inside) > 1:
        mid = (inside + outside) // 2
        if f("1", mid):
            inside = mid
        else:
            outside = mid
    return inside


def describe_checker(f):
    """-> Coq term of type chk"""
    sentinel = object()
    try:
        looks_at_value = not (f("1", None) == f("1", 0) == f("1", sentinel) == f("1", -BIG) == f("1", BIG))
    except Exception:  # noqa: BLE001
        looks_at_value = True
    if not looks_at_value:
        acc = [s for s in BOOL_CANDIDATES if f(s, True)]
        return "CkLex [" + "; ".join(cstr(s) for s in acc) + "]"
    if f("1", "1") or f("1", 1.5) or f("1", Decimal(1)):
        # accepts values that are not ints: by value (not None)
        if all(f("1", v) for v in (0, -BIG, BIG, "", 0.0)) and not f("1", None) and f("", 0):
            return "CkByValue"
        return "CkUnknown"
    inside = next((v for v in (0, 1, -1) if f("1", v)), None)
    if inside is None:
        return "CkUnknown"
    lo = None if f("1", -BIG) else _edge(f, inside, -BIG)
    hi = None if f("1", BIG) else _edge(f, inside, BIG)
    nonempty = not f("", inside)
    # bool is an int for isinstance(); the value False/True never reaches a checker of an int converter
    return f"CkRange {_copt_z(lo)} {_copt_z(hi)} {'true' if nonempty else 'false'}"


def conv_tag(term, c):
    if c is None:
        return "CvIdent"
    if c is int:
        return "CvInt"
    if c is Decimal:
        return "CvDecimal"
    if c is term._parseBoolean:
        return "CvBool"
    import base64
    import datetime as _dt
    from rdflib import xsd_datetime
    if c is term._unhexlify:
        return "CvHex"
    if c is base64.b64decode:
        return "CvB64"
    if c is float:
        return "CvFloat"
    if c is xsd_datetime.parse_xsd_date:
        return "CvDate"      # rdflib's own wrapper around date.fromisoformat
    if c == _dt.time.fromisoformat:
        return "CvTime"
    if c == _dt.datetime.fromisoformat:
        return "CvDateTime"
    return "CvOther"


def split_iri(k):
    s = str(k)
    if s.startswith(XSD):
        return 0, s[len(XSD):]
    if s.startswith(RDF):
        return 1, s[len(RDF):]
    return 2, s


PYTYPES = {"str": 0, "float": 1, "bool": 2, "int": 3, "Decimal": 4, "bytes": 5, "date": 6, "datetime": 7, "time": 8}


def render(rdflib) -> str:
    term = rdflib.term
    out = []
    out.append("Inductive conv := CvIdent | CvInt | CvDecimal | CvBool | CvOther\n"
               "  | CvHex | CvB64 | CvFloat | CvDate | CvTime | CvDateTime.")
    out.append("Inductive chk := CkByValue | CkUnknown | CkLex (accepted : list (list N))\n"
               "  | CkRange (lo hi : option Z) (nonempty : bool).")
    out.append("(* namespace tag: 0 = xsd, 1 = rdf, 2 = full IRI *)")
    rows = []
    for k, c in term.XSDToPython.items():
        if k is None:
            continue
        ns, name = split_iri(k)
        f = term._check_well_formed_types.get(k, term._well_formed_by_value)
        numeric = "true" if k in term._NUMERIC_LITERAL_TYPES else "false"
        rows.append(f"  (({ns}%N, {cstr(name)}), {conv_tag(term, c)}, {describe_checker(f)}, {numeric}) (* {name} *)")
    # keys with a checker but no converter entry would never be consulted; list them to make that visible
    out.append("Definition xsd_table : list ((N * list N) * conv * chk * bool) := [\n" + ";\n".join(rows) + "\n].")
    extra = [split_iri(k)[1] for k in term._check_well_formed_types if k not in term.XSDToPython]
    out.append("Definition checkers_without_converter : list (list N) := [" + "; ".join(cstr(s) for s in extra) + "].")
    # generic python -> literal rules, in order: (python type tag, has lexicaliser, datatype local name)
    rules = []
    for ptype, (cast, dtype) in term._GenericPythonToXSDRules:
        tag = PYTYPES.get(ptype.__name__)
        if tag is None:
            tag = 9
        d = "None" if dtype is None else f"(Some {cstr(split_iri(dtype)[1])})"
        rules.append(f"  ({tag}%N, {'true' if cast is not None else 'false'}, {d}) (* {ptype.__name__} *)")
    out.append("(* python type tag: 0 str, 1 float, 2 bool, 3 int, 4 Decimal, 5 bytes, 6 date, 7 datetime, 8 time, 9 other *)")
    out.append("Definition generic_rules : list (N * bool * option (list N)) := [\n" + ";\n".join(rules) + "\n].")
    spec = []
    for (ptype, dtype), cast in term._SpecificPythonToXSDRules:
        tag = PYTYPES.get(ptype.__name__, 9)
        import base64 as _b64
        import binascii as _ba
        lx = 1 if cast is _ba.hexlify else 2 if cast is _b64.b64encode else 0
        spec.append(f"  ({tag}%N, {cstr(split_iri(dtype)[1])}, {lx}%N)")
    out.append("(* lexicaliser: 1 binascii.hexlify, 2 base64.b64encode, 0 something else *)")
    out.append("Definition specific_rules : list (N * list N * N) := [\n" + ";\n".join(spec) + "\n].")
    out.append(f"Definition normalize_literals_default : bool := {'true' if rdflib.NORMALIZE_LITERALS else 'false'}.")
    # CPython character classes
    spaces = [c for c in range(sys.maxunicode + 1) if chr(c).isspace()]
    out.append("(* str.isspace() of the running CPython *)")
    out.append("Definition py_space_table : list N := [" + "; ".join(f"{c}%N" for c in spaces) + "].")
    bases = [c for c in range(sys.maxunicode + 1) if unicodedata.decimal(chr(c), None) == 0]
    ndec = sum(1 for c in range(sys.maxunicode + 1) if unicodedata.decimal(chr(c), None) is not None)
    if not all(unicodedata.decimal(chr(b + i), None) == i for b in bases for i in range(10)) or ndec != 10 * len(bases):
        raise RuntimeError("decimal digits of this CPython do not come in runs 0..9")
    out.append("(* first code point of every run of ten decimal digits (unicodedata.decimal) *)")
    out.append("Definition py_digit_bases : list N := [" + "; ".join(f"{c}%N" for c in bases) + "].")
    return "\n".join(out) + "\n"
