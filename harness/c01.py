"""C01 - a Graph is exactly the set of triples its history implies.

Correspondence between coq/Store/Model.v (SimpleMemory, Memory, Graph layer),
coq/Store/Iter.v (the generator Memory.triples stepped between mutations) and
rdflib/plugins/stores/memory.py + rdflib/graph.py."""
from __future__ import annotations

import itertools
import warnings

from .core import Suite, cN, cbool, clist, copt, ctuple
from .terms import GRAPH_POOL, rdflib, term, term_id

warnings.filterwarnings("ignore", category=DeprecationWarning)
from rdflib import BNode, Graph, URIRef  # noqa: E402
from rdflib.plugins.stores.memory import Memory, SimpleMemory  # noqa: E402

TRUSTED = [
    "Coq 8.16.1 kernel and vm_compute",
    "harness/c01.py: translation of cases to rdflib calls and of rdflib answers to term numbers (harness/terms.py numbering never calls rdflib __eq__/__hash__)",
    "coq/Store/Model.v, Reads.v, StoreLevel.v, Iter.v, SimpleIter.v, Transitive.v/TransitiveGraph.v are faithful transcriptions of memory.py / graph.py / Store.triples_choices (tied to the source by this correspondence check, not proved)",
    "CPython dict/set semantics as modelled in coq/Store/PyDict.v (insertion-ordered association list)",
]
ASSUMPTIONS = [
    "MA1: a generator of Memory.triples holds references to inner dicts; inner dicts are never replaced, so lookup by path in the current state is the same",
    "MA2: Memory.remove and Graph.__isub__ run over a live generator of the store's triples(); modelled as the list computed up front (both stores snapshot the key lists / triple set they walk, a removed triple is never revisited, removing one triple does not change another's entry)",
    "MA3: Graph.add always passes quoted=False, so the per-triple context dict is modelled by its key list",
    "MA4 (now proved, not assumed: C01_memory_iteration_is_snapshot, C01_simple_iteration_const, C01_simple_isub_interleaved, C01_simple_iadd_interleaved): the interleaved loops of += / -= / the binary operators see the list computed up front",
    "transitive walks: the model has no recursion limit (Python raises RecursionError on chains longer than the interpreter's limit)",
    "MA5: Graph.value(any=True) returns the first matching term in dict insertion order; the model reproduces that order except after an insertion made while walking a Python set (+=, operator results) - then only 'some matching term / None iff none' is compared",
    "store-level suite: contexts are Graph objects with identifiers from GRAPH_POOL, one per store key; Memory.add is never called with context=None",
    "terms are abstract identifiers with decidable equality; independence of the code from Python truthiness is established by the tie (falsy terms in every vocabulary), not by the theorems",
]
RULE = ("histories: random operation sequences (add, addN, remove with all wildcard shapes, set, +=, -=, + - * ^) over 2-3 "
        "subjects x 1-2 predicates x 2-3 objects (falsy literals always possible in every position), 1-4 Graph objects sharing one or two "
        "stores (Memory/Memory, SimpleMemory/SimpleMemory, Memory/SimpleMemory); the graph a binary operator returns joins the graphs in play "
        "(it is mutated, used as operand and observed for the rest of the history; operands may be empty); after every operation every graph is observed through "
        "iteration, len and the 8 bound/unbound shapes of a probe triple (triples() and `in`). iterators: schedules of mutations, "
        "open-iterator and next() steps on one Memory store. reads: a history, then the derived read API (6 generators x unique, value x any, "
        "triples_choices with 0-4 element lists incl. repeats) on every graph for 1-2 probes. storelevel: add/remove (context a graph or None, all "
        "wildcard shapes)/add_graph/remove_graph on one Memory or SimpleMemory store, after every operation every context key incl. None is "
        "observed (triples, len, 8 shapes) plus contexts() and contexts(probe). simpleiter: adds/removes on one SimpleMemory graph interleaved with "
        "next()/list() of up to 3 open iter(g), yields compared exactly in order. transitive: 2-4 nodes (falsy literals included) x 1-2 predicates, random "
        "edges with self-loops and cycles on 1-2 graphs of either store, then transitive_objects / transitive_subjects / transitiveClosure for 1-3 "
        "(start, predicate-or-None) queries incl. a start that is not in the graph. A case is distinct by its full content; non-trivial when it contains a removal "
        "or a set operator (histories) resp. a mutation between two steps of an open iterator (iterators).")


def c_triple(t):
    return ctuple(*(cN(x) for x in t))


def c_pat(p):
    return ctuple(*(copt(x, cN) for x in p))


def c_tl(l):
    return clist(c_triple(t) for t in l)


def c_handle(h):
    return ctuple(f"{int(h[0])}%nat", cN(h[1]), cN(h[2]))


def result_handle(slot):
    """the graph a binary operator returned into store number `slot` (2, 3, ...)"""
    return [slot, 0, 1000 + slot]


def fresh_ident(cid):
    x = GRAPH_POOL[cid - 1]
    return type(x)(str.__str__(x))


def tids(t):
    return [term_id(x) for x in t]


def masks(t):
    s, p, o = t
    return [(None, None, None), (s, None, None), (None, p, None), (None, None, o),
            (s, p, None), (s, None, o), (None, p, o), (s, p, o)]


class World:
    """Graph objects of a case on real rdflib."""

    def __init__(self, k0, k1):
        self.stores = [SimpleMemory() if k0 else Memory(), SimpleMemory() if k1 else Memory()]
        self.idents = {}
        self.graphs = {}
        self.slots = {}          # store number >= 2 -> the Graph a binary operator returned
        self.placeholders = {}   # observed before it exists: an empty graph
        self.next_slot = 2

    def graph(self, h):
        if h[0] >= 2:
            if h[0] in self.slots:
                return self.slots[h[0]]
            if h[0] not in self.placeholders:
                self.placeholders[h[0]] = Graph()
            return self.placeholders[h[0]]
        key = tuple(h)
        if key not in self.graphs:
            tok = (h[2], h[1])
            if tok not in self.idents:
                self.idents[tok] = fresh_ident(h[1])
            self.graphs[key] = Graph(store=self.stores[h[0]], identifier=self.idents[tok])
        return self.graphs[key]


def exec_op(w, op):
    """one operation of a history on real rdflib: (raised?, content of a binary operator's result)"""
    raised, res = False, []
    try:
        kind = op[0]
        if kind == "add":
            w.graph(op[1]).add(tuple(term(x) for x in op[2]))
        elif kind == "addN":
            w.graph(op[1]).addN([tuple(term(x) for x in t) + (w.graph(h),) for t, h in op[2]])
        elif kind == "rem":
            w.graph(op[1]).remove(tuple(None if x is None else term(x) for x in op[2]))
        elif kind == "set":
            w.graph(op[1]).set(tuple(term(x) for x in op[2]))
        elif kind == "iadd":
            g = w.graph(op[1])
            g += w.graph(op[2])
        elif kind == "isub":
            g = w.graph(op[1])
            g -= w.graph(op[2])
        elif kind == "bin":
            a, b = w.graph(op[2]), w.graph(op[3])
            slot = w.next_slot
            w.next_slot += 1          # the model numbers the new stores by the operators executed
            r = {"add": a.__add__, "sub": a.__sub__, "mul": a.__mul__, "xor": a.__xor__}[op[1]](b)
            w.slots[slot] = r
            res = sorted(tids(t) for t in r)
    except Exception:  # noqa: BLE001
        raised = True
    return raised, res


class Histories(Suite):
    name = "histories"
    imports = "From RV Require Import Store.Model."
    case_ty = "case"
    obs_ty = "obs"
    corr = ("SimpleMemory.add/remove/triples/__len__, Memory.add/remove/triples/__len__ and its context helpers, "
            "Graph.add/addN/remove/set/triples/__len__/__contains__/__iter__/__iadd__/__isub__/__add__/__sub__/__mul__/__xor__, Store.addN")
    quick_n = 260   # the Coq evaluation of the observations dominates the quick check
    shard = 130     # cases per Coq file: keeps one coqc of this suite well under 1 GB
    thorough_n = 12000
    timeout_s = 20.0

    # case = {"k0": bool, "k1": bool, "handles": [[store, cid, tok]...], "ops": [[op, probe]...]}
    # op = ["add", h, t] | ["addN", h, [[t, h']...]] | ["rem", h, pat] | ["set", h, t]
    #    | ["iadd", g, h] | ["isub", g, h] | ["bin", "add|sub|mul|xor", g, h]
    # stores 0 and 1 are the stores of the case; the k-th "bin" of the history creates store 2+k holding the
    # returned graph, handle result_handle(2+k), which is in play (observed, mutated, used as operand) afterwards

    def gen(self, rng, i):
        mode = rng.choice(["mem", "mem", "mem", "mem", "simple", "simple", "mixed"])
        k0, k1 = {"mem": (False, False), "simple": (True, True), "mixed": (False, True)}[mode]
        subs = rng.sample([1, 2, 5, 6, 8], rng.choice([2, 2, 3]))
        preds = rng.sample([3, 4, 7], rng.choice([1, 2]))
        objs = rng.sample([1, 5, 6, 7, 9, 10, 11, 13, 14], rng.choice([2, 2, 3]))
        pool = [[s, p, o] for s in subs for p in preds for o in objs]
        rng.shuffle(pool)
        pool = pool[: rng.choice([2, 3, 4, 5, 6])]
        handles = []
        tok = 1
        if k0:
            handles.append([0, rng.choice([1, 2, 3]), tok]); tok += 1
        else:
            for cid in rng.sample([1, 2, 3, 4, 5], rng.choice([1, 2, 2, 3])):
                handles.append([0, cid, tok]); tok += 1
            if rng.random() < 0.25:
                # a second Graph object for the same identifier: equal, not identical (or identical: same tok)
                h = rng.choice(handles)
                handles.append([0, h[1], h[2] if rng.random() < 0.4 else tok]); tok += 1
        if rng.random() < (0.5 if mode != "mixed" else 1.0):
            same = rng.choice(handles)
            if rng.random() < 0.3:
                handles.append([1, same[1], same[2]])      # same identifier object, other store
            else:
                handles.append([1, rng.choice([1, 2, 3]), tok]); tok += 1
        handles = [list(x) for x in dict.fromkeys(tuple(h) for h in handles)]
        live = list(handles)            # graphs the operations may use; results of binary operators join it
        empty = None
        if not k0 and rng.random() < 0.4:
            # a graph nobody writes to: empty operands of the set operators
            free = [c for c in (5, 4, 3, 2, 1) if all(h[1] != c for h in handles)]
            if free:
                empty = [0, free[0], tok]
                tok += 1
                handles.append(empty)
        results = []
        nbin = 0

        def pick():
            return rng.choice(live)

        def operand():
            if empty is not None and rng.random() < 0.35:
                return empty
            return rng.choice(live)

        def rpat(t):
            return [x if rng.random() < 0.55 else None for x in t]

        n = rng.choice([2, 3, 4, 5, 6, 8, 10, 12]) if i % 12 != 11 else rng.randint(15, 28)
        ops = []
        for _ in range(n):
            r = rng.random()
            t = rng.choice(pool)
            g = pick()
            if r < 0.32:
                op = ["add", g, t]
            elif r < 0.40:
                qs = [[rng.choice(pool), pick() if rng.random() < 0.5 else g] for _ in range(rng.choice([1, 2, 3]))]
                op = ["addN", g, qs]
                t = qs[0][0]
            elif r < 0.48:
                op = ["rem", g, t]
            elif r < 0.63:
                op = ["rem", g, rpat(t)]
            elif r < 0.70:
                op = ["set", g, t]
            elif r < 0.78:
                h = operand() if rng.random() < 0.8 else g
                op = ["iadd", g, h]
            elif r < 0.86:
                h = operand() if rng.random() < 0.8 else g
                op = ["isub", g, h]
            elif nbin < 3:
                a = operand() if rng.random() < 0.15 else g
                op = ["bin", rng.choice(["add", "sub", "sub", "mul", "xor"]), a, operand()]
                res = result_handle(2 + nbin)
                nbin += 1
                results.append(res)
                live.append(res)
                live.append(res)      # the fresh result is a likely target of what follows
            else:
                op = ["add", g, t]
            pr = rng.random()
            if pr < 0.6:
                probe = list(t)
            elif pr < 0.85:
                probe = list(rng.choice(pool))
            else:
                probe = list(t)
                probe[rng.choice([0, 1, 2])] = 12   # a term that is nowhere
            ops.append([op, probe])
        return {"k0": k0, "k1": k1, "handles": handles + results, "ops": ops}

    # ------------------------------------------------------------ implementation
    def run_impl(self, case):
        w = World(case["k0"], case["k1"])
        obs = []
        for op, probe in case["ops"]:
            raised, res = exec_op(w, op)
            pt = tuple(term(x) for x in probe)
            per = []
            for hd in case["handles"]:
                g = w.graph(hd)      # looked up now: a result handle denotes whatever the operator returned
                try:
                    it = sorted(tids(t) for t in g)
                    ln = len(g)
                    ps = [sorted(tids(t) for t in g.triples(m)) for m in masks(pt)]
                    cs = [m in g for m in masks(pt)]
                except Exception:  # noqa: BLE001
                    it, ln, ps, cs = [[997, 997, 997]], 997, [], []
                per.append([it, ln, ps, cs])
            obs.append([raised, res, per])
        return obs

    def on_timeout(self, case):
        return [[True, [], []]]

    # ------------------------------------------------------------ Coq text
    def coq_op(self, op):
        k = op[0]
        if k == "add":
            return f"GAdd {c_handle(op[1])} {c_triple(op[2])}"
        if k == "addN":
            return f"GAddN {c_handle(op[1])} " + clist(ctuple(c_triple(t), c_handle(h)) for t, h in op[2])
        if k == "rem":
            return f"GRemove {c_handle(op[1])} {c_pat(op[2])}"
        if k == "set":
            return f"GSet {c_handle(op[1])} {c_triple(op[2])}"
        if k == "iadd":
            return f"GIAdd {c_handle(op[1])} {c_handle(op[2])}"
        if k == "isub":
            return f"GISub {c_handle(op[1])} {c_handle(op[2])}"
        b = {"add": "OAdd", "sub": "OSub", "mul": "OMul", "xor": "OXor"}[op[1]]
        return f"GBin {b} {c_handle(op[2])} {c_handle(op[3])}"

    def coq_case(self, case):
        ops = clist(ctuple(self.coq_op(op), c_triple(probe)) for op, probe in case["ops"])
        return ("{| c_simple0 := " + cbool(case["k0"]) + "; c_simple1 := " + cbool(case["k1"]) + "; c_handles := "
                + clist(c_handle(h) for h in case["handles"]) + "; c_ops := " + ops + " |}")

    def coq_obs(self, obs):
        def hob(x):
            it, ln, ps, cs = x
            return ctuple(c_tl(it), cN(ln), clist(c_tl(p) for p in ps), clist(cbool(b) for b in cs))
        return clist(ctuple(cbool(r), c_tl(res), clist(hob(x) for x in per)) for r, res, per in obs)

    def nontrivial(self, case, obs):
        return any(op[0] in ("rem", "set", "isub", "iadd", "bin") for op, _ in case["ops"])

    def features(self, case, obs):
        f = {"ops_total": len(case["ops"]), "graphs": len(case["handles"]),
             "stores_" + ("simple" if case["k0"] else "memory") + "_" + ("simple" if case["k1"] else "memory"): 1,
             "raised_steps": sum(1 for o in obs if o[0])}
        for op, probe in case["ops"]:
            k = op[0]
            if k == "rem":
                k = "rem_shape_" + "".join("b" if x is not None else "w" for x in op[2])
            elif k == "bin":
                k = "bin_" + op[1]
                i = case["ops"].index([op, probe])
                for side, hd in (("left", op[2]), ("right", op[3])):
                    try:
                        idx = case["handles"].index(hd)
                        if i == 0 or obs[i - 1][2][idx][1] == 0:
                            f["bin_empty_" + side] = f.get("bin_empty_" + side, 0) + 1
                    except (ValueError, IndexError):
                        pass
            elif k in ("iadd", "isub"):
                if op[1] == op[2]:
                    k += "_alias"
                elif op[1][0] == op[2][0]:
                    k += "_same_store"
                else:
                    k += "_other_store"
            f["op_" + k] = f.get("op_" + k, 0) + 1
            if op[0] != "bin" and isinstance(op[1], list) and op[1][0] >= 2:
                f["op_on_operator_result"] = f.get("op_on_operator_result", 0) + 1
            if any(term_id(term(x)) in (5, 6, 7, 14) for x in probe if x != 12):
                f["falsy_probe"] = f.get("falsy_probe", 0) + 1
        return f

    @staticmethod
    def _max_store(op):
        hs = [op[1]] if op[0] in ("add", "rem", "set", "addN") else [op[-2], op[-1]]
        if op[0] == "addN":
            hs = hs + [h for _, h in op[2]]
        if op[0] in ("iadd", "isub"):
            hs = [op[1], op[2]]
        return max(h[0] for h in hs)

    def shrink(self, case):
        ops = case["ops"]
        for i in range(len(ops) - 1, 0, -1):
            yield dict(case, ops=ops[:i])                      # prefixes are always well-scoped
        nbins = sum(1 for o, _ in ops if o[0] == "bin")
        for i in range(len(ops)):
            if ops[i][0][0] == "bin":
                # only the last operator may go, and only if nothing uses its result (store numbers are positional)
                k = sum(1 for o, _ in ops[:i + 1] if o[0] == "bin")
                if k != nbins or any(self._max_store(o) >= 1 + k for o, _ in ops[i + 1:]):
                    continue
            yield dict(case, ops=ops[:i] + ops[i + 1:])
        for i in range(len(case["handles"])):
            if len(case["handles"]) > 1:
                yield dict(case, handles=case["handles"][:i] + case["handles"][i + 1:])

    def sweep(self):
        """all histories of length <= 3 (and those of length 4 that start with an add) over 2 triples x 2 graphs of one
        Memory store, incl. -=, +=, set, wildcard removes, and `g1 - g2`, `g2 * g1` whose result is then mutated"""
        g1, g2 = [0, 1, 1], [0, 2, 2]
        r = result_handle(2)
        ts = [[1, 3, 5], [1, 3, 6]]
        alphabet = []
        for g in (g1, g2):
            for t in ts:
                alphabet.append(["add", g, t])
                alphabet.append(["rem", g, t])
            alphabet.append(["rem", g, [1, None, None]])
        alphabet.append(["rem", g1, [None, None, None]])
        alphabet.append(["isub", g1, g2])
        alphabet.append(["iadd", g2, g1])
        alphabet.append(["set", g2, [1, 3, 6]])
        alphabet.append(["bin", "sub", g1, g2])
        alphabet.append(["bin", "mul", g2, g1])
        alphabet.append(["add", r, [1, 3, 6]])
        alphabet.append(["rem", r, [1, None, None]])
        for n in (1, 2, 3, 4):
            for seq in itertools.product(alphabet, repeat=n):
                if n == 4 and seq[0][0] != "add":
                    continue
                bins = 0
                ok = True
                for o in seq:
                    if o[0] == "bin":
                        bins += 1
                    elif o[1][0] >= 2 and bins != 1:
                        ok = False      # the result handle means store 2: exactly one operator so far
                        break
                if not ok or bins > 1:
                    continue
                yield {"k0": False, "k1": False, "handles": [g1, g2, r],
                       "ops": [[list(o), [1, 3, 5]] for o in seq]}


class Iterators(Suite):
    name = "iterators"
    imports = "From RV Require Import Store.Iter."
    case_ty = "icase"
    obs_ty = "iobs"
    model = "imodel_obs"
    oeq = "iobs_eqb"
    spec = "ispec_ok"
    corr = "Memory.triples as a generator (through Graph.triples) interleaved with Memory.add/remove (Graph.add/remove/set)"
    quick_n = 500
    thorough_n = 12000
    timeout_s = 20.0

    # case = {"ops": [["add", cid, t] | ["rem", cid, pat] | ["set", cid, t] | ["open", cid, pat] | ["next", i] | ["drain", i]]}

    def gen(self, rng, i):
        subs = rng.sample([1, 2, 5, 6, 8], rng.choice([1, 2, 2]))
        preds = rng.sample([3, 4, 7], rng.choice([1, 2]))
        objs = rng.sample([1, 5, 6, 7, 9, 10, 14], rng.choice([2, 3]))
        pool = [[s, p, o] for s in subs for p in preds for o in objs]
        rng.shuffle(pool)
        pool = pool[: rng.choice([2, 3, 4, 5, 6])]
        cids = rng.sample([1, 2, 3, 4], rng.choice([1, 2, 2, 3]))
        ops = []
        for _ in range(rng.choice([1, 2, 3, 4, 5])):
            ops.append(["add", rng.choice(cids), rng.choice(pool)])
        nit = 0
        n = rng.choice([4, 6, 8, 10, 14]) if i % 10 != 9 else rng.randint(15, 40)
        for _ in range(n):
            r = rng.random()
            t = rng.choice(pool)
            if r < 0.18 or nit == 0:
                if nit < 3:
                    shape = rng.choice([(1, 0, 0), (1, 0, 0), (0, 1, 0), (0, 0, 1), (1, 1, 0), (0, 1, 1), (1, 0, 1), (1, 1, 1), (0, 0, 0)])
                    c = cids[0] if rng.random() < 0.6 else rng.choice(cids)
                    ops.append(["open", c, [x if b else None for x, b in zip(t, shape)]])
                    nit += 1
                    continue
                r = 0.5
            if r < 0.50:
                ops.append(["next", rng.randrange(nit)])
            elif r < 0.66:
                ops.append(["add", rng.choice(cids), t])
            elif r < 0.84:
                ops.append(["rem", rng.choice(cids), t if rng.random() < 0.7 else [x if rng.random() < 0.5 else None for x in t]])
            elif r < 0.90:
                ops.append(["set", rng.choice(cids), t])
            else:
                ops.append(["drain", rng.randrange(nit)])
        for k in range(nit):
            ops.append(["drain", k])
        return {"ops": ops}

    def run_impl(self, case):
        store = Memory()
        graphs = {}

        def graph(c):
            if c not in graphs:
                graphs[c] = Graph(store=store, identifier=GRAPH_POOL[c - 1])
            return graphs[c]

        its = []
        obs = []
        for op in case["ops"]:
            k = op[0]
            ent = [999, False, [], 0]
            if k in ("add", "rem", "set"):
                try:
                    if k == "add":
                        graph(op[1]).add(tuple(term(x) for x in op[2]))
                    elif k == "rem":
                        graph(op[1]).remove(tuple(None if x is None else term(x) for x in op[2]))
                    else:
                        graph(op[1]).set(tuple(term(x) for x in op[2]))
                except Exception:  # noqa: BLE001
                    ent = [999, False, [], 2]
            elif k == "open":
                pat = tuple(None if x is None else term(x) for x in op[2])
                its.append((graph(op[1]).triples(pat), all(x is None for x in op[2])))
            elif k in ("next", "drain"):
                it, wild = its[op[1]]
                ys, st = [], 0
                while True:
                    try:
                        ys.append(tids(next(it)))
                    except StopIteration:
                        st = 1
                        break
                    except Exception:  # noqa: BLE001
                        st = 2
                        break
                    if k == "next":
                        break
                ent = [op[1], wild, ys, st]
            obs.append(ent)
        return obs

    def on_timeout(self, case):
        return [[999, False, [], 2]]

    def coq_case(self, case):
        out = []
        for op in case["ops"]:
            k = op[0]
            if k == "add":
                out.append(f"SAdd {cN(op[1])} {c_triple(op[2])}")
            elif k == "rem":
                out.append(f"SRemove {cN(op[1])} {c_pat(op[2])}")
            elif k == "set":
                out.append(f"SSet {cN(op[1])} {c_triple(op[2])}")
            elif k == "open":
                out.append(f"SOpen {cN(op[1])} {c_pat(op[2])}")
            elif k == "next":
                out.append(f"SNext {int(op[1])}%nat")
            else:
                out.append(f"SDrain {int(op[1])}%nat")
        return "{| ic_ops := " + clist(out) + " |}"

    def coq_obs(self, obs):
        return clist(ctuple(cN(i), cbool(w), c_tl(ys), cN(st)) for i, w, ys, st in obs)

    def nontrivial(self, case, obs):
        seen_open, seen_mut = False, False
        for op in case["ops"]:
            if op[0] == "open":
                seen_open = True
            elif op[0] in ("add", "rem", "set") and seen_open:
                seen_mut = True
            elif op[0] in ("next", "drain") and seen_mut:
                return True
        return False

    def features(self, case, obs):
        f = {"ops_total": len(case["ops"]), "yields": sum(len(e[2]) for e in obs),
             "raised": sum(1 for e in obs if e[3] == 2)}
        for op in case["ops"]:
            k = op[0]
            if k == "open":
                k = "open_" + "".join("b" if x is not None else "w" for x in op[2])
            f["op_" + k] = f.get("op_" + k, 0) + 1
        return f

    def shrink(self, case):
        ops = case["ops"]
        for i in range(len(ops)):
            if ops[i][0] == "open":
                continue   # iterator numbers would shift
            yield dict(case, ops=ops[:i] + ops[i + 1:])

    def sweep(self):
        """one iterator over graph 1 (every risky shape) opened after 2 adds, every interleaving of <= 3 mutations/steps"""
        t1, t2 = [1, 3, 5], [1, 3, 6]
        muts = [["add", 1, t2], ["add", 2, t2], ["rem", 1, t1], ["rem", 2, t2], ["rem", 2, t1], ["rem", 1, t2], ["next", 0]]
        for setup in ([["add", 1, t1], ["add", 2, t2]], [["add", 2, t1], ["add", 1, t2]], [["add", 1, t1], ["add", 2, t1], ["add", 2, t2]]):
            for pat in ([1, None, None], [None, 3, None], [1, 3, None], [None, None, 6], [None, 3, 6], [None, None, None], [1, None, 6]):
                for n in (1, 2, 3):
                    for seq in itertools.product(muts, repeat=n):
                        yield {"ops": [list(o) for o in setup] + [["open", 1, pat]] + [list(o) for o in seq] + [["drain", 0]]}


def masks2(a, b):
    return [(None, None), (a, None), (None, b), (a, b)]


class Reads(Suite):
    """the derived read API at the end of a history, on every graph in play"""
    name = "reads"
    imports = "From RV Require Import Store.Reads."
    case_ty = "rcase"
    obs_ty = "robs"
    model = "rmodel_obs"
    oeq = "robs_eqb"
    spec = "rspec_ok"
    corr = ("Graph.subjects/predicates/objects/subject_predicates/subject_objects/predicate_objects (unique False/True), "
            "Graph.value (any True/False), Graph.triples_choices + Store.triples_choices")
    quick_n = 160
    thorough_n = 8000
    timeout_s = 20.0

    # case = a histories case + "probes": [[t, L]...]  (L: the list put into one slot of triples_choices)

    def gen(self, rng, i):
        base = HISTORIES.gen(rng, 0 if i % 12 != 11 else 11)
        terms = sorted({x for op, pr in base["ops"] for x in pr})
        probes = []
        for _ in range(rng.choice([1, 2, 2])):
            t = list(rng.choice(base["ops"])[1])
            L = [rng.choice(terms + [12]) for _ in range(rng.choice([0, 1, 2, 2, 3]))]
            if L and rng.random() < 0.3:
                L.append(L[0])      # the same term twice: triples_choices repeats its triples
            probes.append([t, L])
        base["probes"] = probes
        return base

    def run_impl(self, case):
        w = World(case["k0"], case["k1"])
        for op, _ in case["ops"]:
            exec_op(w, op)
        ordered = all(op[0] not in ("iadd", "bin") for op, _ in case["ops"])
        out = []
        for hd in case["handles"]:
            g = w.graph(hd)
            per = []
            for t, L in case["probes"]:
                s, p, o = (term(x) for x in t)
                Lt = [term(x) for x in L]
                try:
                    o1 = []
                    for a, b in masks2(p, o):
                        o1 += [[term_id(x) for x in g.subjects(a, b, unique=u)] for u in (False, True)]
                    for a, b in masks2(s, o):
                        o1 += [[term_id(x) for x in g.predicates(a, b, unique=u)] for u in (False, True)]
                    for a, b in masks2(s, p):
                        o1 += [[term_id(x) for x in g.objects(a, b, unique=u)] for u in (False, True)]
                    o2 = []
                    for a in (None, o):
                        o2 += [[[term_id(x), term_id(y)] for x, y in g.subject_predicates(a, unique=u)] for u in (False, True)]
                    for a in (None, p):
                        o2 += [[[term_id(x), term_id(y)] for x, y in g.subject_objects(a, unique=u)] for u in (False, True)]
                    for a in (None, s):
                        o2 += [[[term_id(x), term_id(y)] for x, y in g.predicate_objects(a, unique=u)] for u in (False, True)]
                    o3 = []
                    for q in [(s, p, None), (None, p, o), (s, None, o), (s, None, None), (None, p, None), (None, None, o), (None, None, None)]:
                        for any_ in (True, False):
                            try:
                                v = g.value(q[0], q[1], q[2], default=None, any=any_)
                                o3.append([0, 0] if v is None else [1, term_id(v)])
                            except rdflib.exceptions.UniquenessError:
                                o3.append([2, 0])
                    o4 = []
                    for q in [(s, p, Lt), (None, p, Lt), (Lt, p, o), (Lt, None, None), (s, Lt, o), (None, Lt, None)]:
                        o4.append([tids(x) for x in g.triples_choices(q)])
                except Exception:  # noqa: BLE001
                    o1, o2, o3, o4 = [[997]], [], [], []
                per.append([o1, o2, o3, o4])
            out.append(per)
        return [ordered, out]

    def on_timeout(self, case):
        return [False, []]

    def coq_case(self, case):
        probes = clist(ctuple(c_triple(t), clist(cN(x) for x in L)) for t, L in case["probes"])
        return "{| r_c := " + HISTORIES.coq_case(case) + "; r_probes := " + probes + " |}"

    def coq_obs(self, obs):
        def one(x):
            o1, o2, o3, o4 = x
            return ctuple(clist(clist(cN(a) for a in l) for l in o1),
                          clist(clist(ctuple(cN(a), cN(b)) for a, b in l) for l in o2),
                          clist(ctuple(cN(k), cN(v)) for k, v in o3),
                          clist(c_tl(l) for l in o4))
        return ctuple(cbool(obs[0]), clist(clist(one(x) for x in per) for per in obs[1]))

    def nontrivial(self, case, obs):
        return any(any(any(l for l in x[0]) for x in per) for per in obs[1])

    def features(self, case, obs):
        f = {"ordered": int(obs[0]), "probes": len(case["probes"]), "graphs": len(case["handles"])}
        for per in obs[1]:
            for o1, o2, o3, o4 in per:
                f["value_some"] = f.get("value_some", 0) + sum(1 for k, _ in o3 if k == 1)
                f["value_uniqueness_error"] = f.get("value_uniqueness_error", 0) + sum(1 for k, _ in o3 if k == 2)
                f["generator_with_duplicates"] = f.get("generator_with_duplicates", 0) + sum(1 for l in o1 if len(l) != len(set(l)))
                f["choices_nonempty"] = f.get("choices_nonempty", 0) + sum(1 for l in o4 if l)
        f["choice_list_empty"] = sum(1 for _, L in case["probes"] if not L)
        f["choice_list_repeats"] = sum(1 for _, L in case["probes"] if len(L) != len(set(L)))
        return f

    def shrink(self, case):
        for c in HISTORIES.shrink(case):
            yield c
        for i in range(len(case["probes"])):
            if len(case["probes"]) > 1:
                yield dict(case, probes=case["probes"][:i] + case["probes"][i + 1:])


class StoreLevel(Suite):
    """Memory / SimpleMemory driven through the Store interface, context=None included"""
    name = "storelevel"
    imports = "From RV Require Import Store.StoreLevel."
    case_ty = "tcase"
    obs_ty = "tobs"
    model = "tmodel_obs"
    oeq = "tobs_eqb"
    spec = "tspec_ok"
    corr = ("Memory.add/remove/triples/__len__ with context=None or a graph, Memory.contexts()/contexts(triple)/add_graph/remove_graph; "
            "SimpleMemory.add/remove/triples/__len__ with any context")
    quick_n = 240
    thorough_n = 10000
    timeout_s = 20.0

    # case = {"simple": bool, "keys": [cid|None...], "ops": [[op, probe]...]}
    # op = ["add", cid, t] | ["rem", cid|None, pat] | ["add_graph", cid] | ["remove_graph", cid]

    def gen(self, rng, i):
        simple = rng.random() < 0.2
        subs = rng.sample([1, 2, 5, 6, 8], rng.choice([2, 2, 3]))
        preds = rng.sample([3, 4, 7], rng.choice([1, 2]))
        objs = rng.sample([1, 5, 6, 7, 9, 10, 14], rng.choice([2, 2, 3]))
        pool = [[s, p, o] for s in subs for p in preds for o in objs]
        rng.shuffle(pool)
        pool = pool[: rng.choice([2, 3, 4, 5, 6])]
        cids = rng.sample([1, 2, 3, 4, 5], rng.choice([1, 2, 2, 3]))
        n = rng.choice([2, 3, 4, 5, 6, 8, 10, 12]) if i % 12 != 11 else rng.randint(15, 35)
        ops = []
        for _ in range(n):
            r = rng.random()
            t = rng.choice(pool)
            c = rng.choice(cids)
            if r < 0.42:
                op = ["add", c, t]
            elif r < 0.52:
                op = ["rem", c, t]
            elif r < 0.64:
                op = ["rem", c, [x if rng.random() < 0.5 else None for x in t]]
            elif r < 0.74:
                op = ["rem", None, t]
            elif r < 0.84:
                op = ["rem", None, [x if rng.random() < 0.5 else None for x in t]]
            elif r < 0.92 and not simple:
                op = ["remove_graph", c]
            elif not simple:
                op = ["add_graph", rng.choice(cids + [c for c in (1, 2, 3, 4, 5) if c not in cids][:1])]
            else:
                op = ["add", c, t]
            pr = rng.random()
            probe = list(t) if pr < 0.6 else list(rng.choice(pool))
            if pr > 0.9:
                probe[rng.choice([0, 1, 2])] = 12
            ops.append([op, probe])
        return {"simple": simple, "keys": [None] + cids, "ops": ops}

    def run_impl(self, case):
        store = SimpleMemory() if case["simple"] else Memory()
        graphs = {}

        def ctx(c):
            if c is None:
                return None
            if c not in graphs:
                graphs[c] = Graph(store=store, identifier=GRAPH_POOL[c - 1])
            return graphs[c]

        def gid(x):
            ident = x.identifier if hasattr(x, "identifier") else x
            return {str(type(g).__name__) + ":" + str(g): i + 1 for i, g in enumerate(GRAPH_POOL)}.get(
                type(ident).__name__ + ":" + str(ident), 998)

        obs = []
        for op, probe in case["ops"]:
            try:
                k = op[0]
                if k == "add":
                    store.add(tuple(term(x) for x in op[2]), ctx(op[1]))
                elif k == "rem":
                    store.remove(tuple(None if x is None else term(x) for x in op[2]), ctx(op[1]))
                elif k == "add_graph":
                    store.add_graph(ctx(op[1]))
                elif k == "remove_graph":
                    store.remove_graph(ctx(op[1]))
                pt = tuple(term(x) for x in probe)
                ks = []
                for key in case["keys"]:
                    c = ctx(key)
                    ks.append([sorted(tids(t) for t, _ in store.triples((None, None, None), c)),
                               store.__len__(context=c),
                               [sorted(tids(t) for t, _ in store.triples(m, c)) for m in masks(pt)]])
                if case["simple"]:
                    cs, cof = [], []
                else:
                    cs = sorted(gid(x) for x in store.contexts())
                    cof = sorted(gid(x) for x in store.contexts(pt))
                obs.append([ks, cs, cof])
            except Exception:  # noqa: BLE001
                obs.append([[], [997], [997]])
        return obs

    def on_timeout(self, case):
        return [[[], [997], [997]]]

    def coq_case(self, case):
        ops = []
        for op, probe in case["ops"]:
            k = op[0]
            if k == "add":
                o = f"TAdd {cN(op[1])} {c_triple(op[2])}"
            elif k == "rem":
                o = f"TRemove {copt(op[1], cN)} {c_pat(op[2])}"
            elif k == "add_graph":
                o = f"TAddGraph {cN(op[1])}"
            else:
                o = f"TRemoveGraph {cN(op[1])}"
            ops.append(ctuple(o, c_triple(probe)))
        return ("{| tc_simple := " + cbool(case["simple"]) + "; tc_keys := " + clist(copt(k, cN) for k in case["keys"])
                + "; tc_ops := " + clist(ops) + " |}")

    def coq_obs(self, obs):
        def ko(x):
            it, ln, ps = x
            return ctuple(c_tl(it), cN(ln), clist(c_tl(p) for p in ps))
        return clist(ctuple(clist(ko(x) for x in ks), clist(cN(c) for c in cs), clist(cN(c) for c in cof))
                     for ks, cs, cof in obs)

    def nontrivial(self, case, obs):
        return any(op[0] in ("rem", "remove_graph") for op, _ in case["ops"])

    def features(self, case, obs):
        f = {"ops_total": len(case["ops"]), "store_" + ("simple" if case["simple"] else "memory"): 1}
        for op, _ in case["ops"]:
            k = op[0]
            if k == "rem":
                k = ("rem_noctx_" if op[1] is None else "rem_ctx_") + "".join("b" if x is not None else "w" for x in op[2])
            f["op_" + k] = f.get("op_" + k, 0) + 1
        f["triple_in_several_graphs"] = sum(1 for _, _, cof in obs if len(cof) > 1)
        return f

    def shrink(self, case):
        ops = case["ops"]
        for i in range(len(ops)):
            yield dict(case, ops=ops[:i] + ops[i + 1:])

    def sweep(self):
        """all store-level histories of length <= 4 over 2 triples x 2 graphs (removes with and without context, remove_graph)"""
        ts = [[1, 3, 5], [1, 3, 6]]
        alphabet = []
        for c in (1, 2):
            for t in ts:
                alphabet.append(["add", c, t])
            alphabet.append(["rem", c, ts[0]])
            alphabet.append(["remove_graph", c])
        alphabet.append(["rem", None, ts[0]])
        alphabet.append(["rem", None, [1, None, None]])
        alphabet.append(["rem", 1, [None, 3, None]])
        alphabet.append(["add_graph", 2])
        for n in (1, 2, 3, 4):
            for seq in itertools.product(alphabet, repeat=n):
                if n == 4 and seq[0][0] != "add":
                    continue
                yield {"simple": False, "keys": [None, 1, 2], "ops": [[list(o), [1, 3, 5]] for o in seq]}


class SimpleIter(Suite):
    """the generator SimpleMemory.triples((None,None,None)) stepped between mutations (exact yields, in order)"""
    name = "simpleiter"
    imports = "From RV Require Import Store.SimpleIter."
    case_ty = "sicase"
    obs_ty = "list siobs1"
    model = "simodel_obs"
    oeq = "siobs_eqb"
    spec = "sispec_ok"
    corr = "SimpleMemory.triples((None, None, None)) as a generator (through Graph.__iter__), interleaved with SimpleMemory.add/remove"
    quick_n = 200
    thorough_n = 6000
    timeout_s = 20.0

    # case = {"ops": [["add", t] | ["rem", pat] | ["open"] | ["next", i] | ["drain", i]]}

    def gen(self, rng, i):
        subs = rng.sample([1, 2, 5, 6, 8], rng.choice([1, 2, 3]))
        preds = rng.sample([3, 4, 7], rng.choice([1, 2]))
        objs = rng.sample([1, 5, 6, 7, 9, 10, 14], rng.choice([2, 3]))
        pool = [[s, p, o] for s in subs for p in preds for o in objs]
        rng.shuffle(pool)
        pool = pool[: rng.choice([3, 4, 5, 6, 8])]
        ops = [["add", rng.choice(pool)] for _ in range(rng.choice([1, 2, 3, 4, 5]))]
        nit = 0
        for _ in range(rng.choice([4, 6, 8, 10, 14])):
            r = rng.random()
            t = rng.choice(pool)
            if (r < 0.15 or nit == 0) and nit < 3:
                ops.append(["open"])
                nit += 1
            elif r < 0.55:
                ops.append(["next", rng.randrange(nit)])
            elif r < 0.72:
                ops.append(["add", t])
            elif r < 0.92:
                ops.append(["rem", t if rng.random() < 0.7 else [x if rng.random() < 0.5 else None for x in t]])
            else:
                ops.append(["drain", rng.randrange(nit)])
        for k in range(nit):
            ops.append(["drain", k])
        return {"ops": ops}

    def run_impl(self, case):
        g = Graph(store=SimpleMemory(), identifier=GRAPH_POOL[0])
        its, obs = [], []
        for op in case["ops"]:
            k = op[0]
            ent = [999, [], 0]
            try:
                if k == "add":
                    g.add(tuple(term(x) for x in op[1]))
                elif k == "rem":
                    g.remove(tuple(None if x is None else term(x) for x in op[1]))
                elif k == "open":
                    its.append(iter(g))
                else:
                    it = its[op[1]]
                    ys, st = [], 0
                    while True:
                        try:
                            ys.append(tids(next(it)))
                        except StopIteration:
                            st = 1
                            break
                        if k == "next":
                            break
                    ent = [op[1], ys, st]
            except Exception:  # noqa: BLE001
                ent = [998, [], 2]
            obs.append(ent)
        return obs

    def on_timeout(self, case):
        return [[998, [], 2]]

    def coq_case(self, case):
        out = []
        for op in case["ops"]:
            k = op[0]
            if k == "add":
                out.append(f"SiAdd {c_triple(op[1])}")
            elif k == "rem":
                out.append(f"SiRemove {c_pat(op[1])}")
            elif k == "open":
                out.append("SiOpen")
            elif k == "next":
                out.append(f"SiNext {int(op[1])}%nat")
            else:
                out.append(f"SiDrain {int(op[1])}%nat")
        return "{| sic_ops := " + clist(out) + " |}"

    def coq_obs(self, obs):
        return clist(ctuple(cN(i), c_tl(ys), cN(st)) for i, ys, st in obs)

    def nontrivial(self, case, obs):
        seen_open, seen_mut = False, False
        for op in case["ops"]:
            if op[0] == "open":
                seen_open = True
            elif op[0] in ("add", "rem") and seen_open:
                seen_mut = True
            elif op[0] in ("next", "drain") and seen_mut:
                return True
        return False

    def features(self, case, obs):
        return {"ops_total": len(case["ops"]), "yields": sum(len(e[1]) for e in obs)}

    def shrink(self, case):
        ops = case["ops"]
        for i in range(len(ops)):
            if ops[i][0] != "open":
                yield dict(case, ops=ops[:i] + ops[i + 1:])


class Transitive(Suite):
    """Graph.transitive_objects / transitive_subjects on cyclic graphs"""
    name = "transitive"
    imports = "From RV Require Import Store.Model Store.TransitiveGraph."
    case_ty = "trcase"
    obs_ty = "trobs"
    model = "trmodel_obs"
    oeq = "trobs_eqb"
    spec = "trspec_ok"
    corr = ("Graph.transitive_objects, Graph.transitive_subjects (recursion with the shared `remember` dict) over Graph.objects / "
            "Graph.subjects; Graph.transitiveClosure with func = objects of a predicate")
    quick_n = 200
    thorough_n = 6000
    timeout_s = 20.0

    # case = a histories case (adds / removes on 1-2 graphs) + "qs": [[x, p|None]...]

    def gen(self, rng, i):
        simple = rng.random() < 0.3
        nodes = rng.sample([1, 2, 5, 6, 8, 14], rng.choice([2, 3, 3, 4]))
        preds = rng.sample([3, 4, 7], rng.choice([1, 2]))
        handles = [[0, 1, 1]] if simple else [[0, c, k + 1] for k, c in enumerate(rng.sample([1, 2, 3], rng.choice([1, 2])))]
        ops = []
        for _ in range(rng.choice([2, 3, 4, 5, 6, 8, 10])):
            t = [rng.choice(nodes), rng.choice(preds), rng.choice(nodes)]     # self-loops and cycles are frequent
            g = rng.choice(handles)
            if rng.random() < 0.85:
                ops.append([["add", g, t], t])
            else:
                ops.append([["rem", g, [x if rng.random() < 0.6 else None for x in t]], t])
        qs = []
        for _ in range(rng.choice([1, 2, 3])):
            qs.append([rng.choice(nodes + [12]), rng.choice(preds + [None])])
        return {"k0": simple, "k1": simple, "handles": handles, "ops": ops, "qs": qs}

    def run_impl(self, case):
        w = World(case["k0"], case["k1"])
        for op, _ in case["ops"]:
            exec_op(w, op)
        out = []
        for hd in case["handles"]:
            g = w.graph(hd)
            per = []
            for x, p in case["qs"]:
                pt = None if p is None else term(p)
                try:
                    per.append([[term_id(y) for y in g.transitive_objects(term(x), pt)],
                                [term_id(y) for y in g.transitive_subjects(pt, term(x))],
                                [term_id(y) for y in g.transitiveClosure(lambda n, gr: gr.objects(n, pt), term(x))]])
                except Exception:  # noqa: BLE001
                    per.append([[997], [997], [997]])
            out.append(per)
        return out

    def on_timeout(self, case):
        return []

    def coq_case(self, case):
        qs = clist(ctuple(cN(x), copt(p, cN)) for x, p in case["qs"])
        return "{| trc := " + HISTORIES.coq_case(case) + "; tr_qs := " + qs + " |}"

    def coq_obs(self, obs):
        return clist(clist(ctuple(clist(cN(a) for a in o), clist(cN(a) for a in s_), clist(cN(a) for a in t_))
                           for o, s_, t_ in per) for per in obs)

    def nontrivial(self, case, obs):
        return any(len(o) > 1 or len(s_) > 1 for per in obs for o, s_, t_ in per)

    def features(self, case, obs):
        f = {"queries": len(case["qs"]), "store_" + ("simple" if case["k0"] else "memory"): 1}
        f["closure_of_3_or_more"] = sum(1 for per in obs for o, s_, t_ in per if len(o) >= 3 or len(s_) >= 3)
        f["transitiveClosure_yields_a_node_twice"] = sum(1 for per in obs for o, s_, t_ in per if len(t_) != len(set(t_)))
        f["self_loop_edges"] = sum(1 for op, _ in case["ops"] if op[0] == "add" and op[2][0] == op[2][2])
        return f

    def shrink(self, case):
        ops = case["ops"]
        for i in range(len(ops)):
            yield dict(case, ops=ops[:i] + ops[i + 1:])
        for i in range(len(case["qs"])):
            if len(case["qs"]) > 1:
                yield dict(case, qs=case["qs"][:i] + case["qs"][i + 1:])


HISTORIES = Histories()
SUITES = [HISTORIES, Iterators(), Reads(), StoreLevel(), SimpleIter(), Transitive()]
