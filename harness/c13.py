"""C13 - reads are pure and repeatable: every read-only API call (serialise in every format, SPARQL
SELECT/ASK/CONSTRUCT/DESCRIBE, property paths, isomorphism / canonical forms / graph_diff, slicing,
iteration, len, in, ...) on generated datasets and graphs leaves quads and graph names unchanged and
gives the same answer twice.  Correspondence with coq/Purity/Model.v (which reuses the C02 model)."""
from __future__ import annotations

import io
import pickle
import re
import warnings

from .core import Suite, cN, cbool, clist, copt, ctuple
from .terms import GRAPH_POOL, GRAPH_ID, rdflib, term, term_id, tkey
from . import c02
from .c02 import World, c_garg, c_ctxarg, c_pat, c_quad, c_triple, c_op, pat_terms

warnings.filterwarnings("ignore")
import rdflib.plugins.sparql  # noqa: E402
from rdflib import BNode, ConjunctiveGraph, Dataset, Graph, Literal, URIRef  # noqa: E402
from rdflib.compare import graph_diff, isomorphic, similar, to_canonical_graph, to_isomorphic  # noqa: E402
from rdflib.paths import AlternativePath, InvPath, MulPath, NegatedPath, SequencePath  # noqa: E402

A, B, C_, P, Q = term(1), term(2), term(12), term(3), term(4)
G1 = GRAPH_POOL[0]

# vocabulary of VALID triples (IRI/bnode subjects, IRI predicates) so that every serialiser applies
SUBJ = [1, 2, 8, 12, 13]
PRED = [3, 4]
OBJ = [1, 2, 5, 6, 7, 8, 9, 10, 11, 13, 14]

_LBL = re.compile(r"_:[A-Za-z0-9_.-]+|\bN[0-9a-f]{32}\b")  # blank-node labels inside serialised text


def canon_term(t):
    """a term as a comparable value; a blank node keeps its label behind the tag "B" (see rows_equiv)"""
    if isinstance(t, BNode):
        return ("B", str(t))
    if isinstance(t, Graph):
        return canon_term(t.identifier)
    if isinstance(t, Literal):
        return ("L", str(t), str(t.datatype), str(t.language))
    if isinstance(t, rdflib.term.Node):
        return (type(t).__name__, str(t))
    if isinstance(t, (tuple, list)):
        return ("T",) + tuple(canon_term(x) for x in t)
    if isinstance(t, (str, bytes, bool, int, float)) or t is None:
        return ("V", repr(t))
    return ("O", type(t).__name__)


def _is_b(x):
    return isinstance(x, tuple) and len(x) == 2 and x[0] == "B"


def _flat(row):
    """a row with nested tuples flattened, so that every blank node is a top-level cell"""
    out = []
    for x in row:
        if isinstance(x, tuple) and x and x[0] == "T":
            out.append(("(",))
            out.extend(_flat(x[1:]))
            out.append((")",))
        else:
            out.append(x)
    return tuple(out)


def rows_equiv(ra, rb, budget=200000):
    """equal as MULTISETS of rows up to a bijection between blank-node labels (order of rows is not looked at).
    Backtracking search, rows grouped by their label-blind shape."""
    ra, rb = [_flat(r) for r in ra], [_flat(r) for r in rb]
    if len(ra) != len(rb):
        return False
    if sorted(map(repr, ra)) == sorted(map(repr, rb)):
        return True  # same labels: the usual case, stored blank nodes keep their labels between two calls

    def shape(r):
        return repr(tuple("B" if _is_b(x) else x for x in r))

    ga, gb = {}, {}
    for r in ra:
        ga.setdefault(shape(r), []).append(r)
    for r in rb:
        gb.setdefault(shape(r), []).append(r)
    if {k: len(v) for k, v in ga.items()} != {k: len(v) for k, v in gb.items()}:
        return False
    todo = []
    for k in sorted(ga, key=lambda k: (len(ga[k]), k)):
        if any(_is_b(x) for x in ga[k][0]):
            todo.extend((k, r) for r in ga[k])
    used = {k: [False] * len(v) for k, v in gb.items()}
    fwd, bwd = {}, {}
    steps = [0]

    def bind(r1, r2):
        added = []
        for x, y in zip(r1, r2):
            if _is_b(x):
                if fwd.get(x[1], y[1]) != y[1] or bwd.get(y[1], x[1]) != x[1]:
                    for l1, l2 in added:
                        del fwd[l1], bwd[l2]
                    return None
                if x[1] not in fwd:
                    fwd[x[1]], bwd[y[1]] = y[1], x[1]
                    added.append((x[1], y[1]))
        return added

    def go(i):
        if i == len(todo):
            return True
        steps[0] += 1
        if steps[0] > budget:
            return True  # search too large: the label-blind shapes agree, give the benefit of the doubt
        k, r1 = todo[i]
        for j, r2 in enumerate(gb[k]):
            if used[k][j]:
                continue
            added = bind(r1, r2)
            if added is None:
                continue
            used[k][j] = True
            if go(i + 1):
                return True
            used[k][j] = False
            for l1, l2 in added:
                del fwd[l1], bwd[l2]
        return False

    return go(0)


def text_rows(s):
    """serialised text as rows: one per line, (line with labels blanked, label, label, ...)"""
    rows = []
    for line in s.splitlines():
        labels = _LBL.findall(line)
        rows.append((("V", _LBL.sub("_:?", line)),) + tuple(("B", lab) for lab in labels))
    return rows


def ans(x):
    """comparable form of the answer of a read (compared with same_answer, never with ==)"""
    if isinstance(x, bytes):
        x = x.decode("utf-8", "replace")
    if isinstance(x, str):
        return ("text", x)
    if isinstance(x, (bool, int, float)) or x is None:
        return ("val", repr(x))
    if isinstance(x, rdflib.graph.ReadOnlyGraphAggregate):
        return ("graph", to_isomorphic(Graph().__iadd__(x.triples((None, None, None)))).internal_hash())
    if isinstance(x, Graph):
        if isinstance(x, (Dataset, ConjunctiveGraph)):
            return ("rows", None, [tuple(canon_term(c) for c in q) for q in x.quads()])
        return ("graph", to_isomorphic(x).internal_hash())  # canonical up to blank-node renaming, order-free
    if isinstance(x, rdflib.query.Result):
        if x.type == "ASK":
            return ("val", repr(x.askAnswer))
        if x.type in ("CONSTRUCT", "DESCRIBE"):
            return ("graph", to_isomorphic(x.graph).internal_hash())
        return ("rows", [str(v) for v in (x.vars or [])], [tuple(canon_term(c) for c in r) for r in x])
    if isinstance(x, rdflib.term.Node):
        return ("rows", None, [(canon_term(x),)])
    if isinstance(x, tuple):
        return ("tuple", [ans(y) for y in x])
    try:
        items = list(x)
    except TypeError:
        return ("val", repr(type(x)))
    return ("rows", None, [tuple(canon_term(c) for c in r) if isinstance(r, (tuple, list)) else (canon_term(r),) for r in items])


def equiv(a, b):
    if a[0] != b[0]:
        return False
    if a[0] == "rows":
        return a[1] == b[1] and rows_equiv(a[2], b[2])
    if a[0] == "text":
        return a[1] == b[1] or rows_equiv(text_rows(a[1]), text_rows(b[1]))
    if a[0] == "tuple":
        return len(a[1]) == len(b[1]) and all(equiv(x, y) for x, y in zip(a[1], b[1]))
    return a == b


def same_answer(a, b):
    """both raised the same exception, or both answered and the answers are equal up to the order in which a set was
    walked (rows, lines) and up to a bijection between blank-node labels"""
    if a[0] != b[0]:
        return False
    if a[0] == "exc":
        return a == b
    return equiv(a[1], b[1])


# ------------------------------------------------------------------ the catalogue of reads
def ser(fmt, **kw):
    return lambda g, w: g.serialize(format=fmt, **kw)


def query(q, **kw):
    return lambda g, w: g.query(q, **kw)


def _slice_all(g, w):
    out = []
    for s in (None, A, BNode("b1")):
        for p in (None, P):
            for o in (None, B, Literal("")):
                out.append(sorted(repr(x) for x in g[s:p:o]))
    return repr(out)


def _other(g, w):
    o = Graph(identifier=URIRef("urn:x-verif:other"))
    o.add((A, P, B))
    o.add((BNode(), P, Literal("x")))
    for t in list(g.triples((None, None, None)))[:2]:
        o.add(t[:3])
    return o


def _as_graph(g, w):
    """compare functions want triple graphs: a dataset is looked at through its default graph"""
    if isinstance(g, Dataset):
        return g.default_graph
    if isinstance(g, ConjunctiveGraph):
        return g.default_context
    return g


def _foreign(g, w):
    f = Graph(identifier=G1)
    f.add((C_, Q, C_))
    return f


READS = [
    # --- serialisers (Dataset and Graph)
    ("ser_nt", ser("nt")), ("ser_nt11", ser("nt11")), ("ser_turtle", ser("turtle")), ("ser_longturtle", ser("longturtle")),
    ("ser_n3", ser("n3")), ("ser_xml", ser("xml")), ("ser_pretty_xml", ser("pretty-xml")),
    ("ser_jsonld", ser("json-ld")), ("ser_jsonld_auto", ser("json-ld", auto_compact=True)),
    ("ser_hext", ser("hext")), ("ser_trig", ser("trig")), ("ser_trix", ser("trix")), ("ser_nquads", ser("nquads")),
    ("ser_patch_add", ser("patch", operation="add")), ("ser_patch_remove", ser("patch", operation="remove")),
    ("ser_patch_target", lambda g, w: g.serialize(format="patch", target=w.other_ds())),
    ("ser_default", lambda g, w: g.serialize()),
    ("ser_turtle_base", ser("turtle", base="http://e/")), ("ser_bytes", ser("turtle", encoding="utf-8")),
    ("ser_dest", lambda g, w: (g.serialize(destination=io.BytesIO(), format="nt"), None)[1]),
    ("print", lambda g, w: g.print(out=io.StringIO()) if hasattr(g, "print") else None),
    # --- SPARQL
    ("q_select_all", query("SELECT * WHERE { ?s ?p ?o }")),
    ("q_select_graph_var", query("SELECT ?g ?s ?o WHERE { GRAPH ?g { ?s ?p ?o } }")),
    ("q_select_graph_iri", query("SELECT ?s ?o WHERE { GRAPH <urn:g:1> { ?s ?p ?o } }")),
    ("q_select_from", query("SELECT ?s ?o FROM <urn:g:1> WHERE { ?s ?p ?o }")),
    ("q_select_from_named", query("SELECT ?g ?s FROM NAMED <urn:g:2> WHERE { GRAPH ?g { ?s ?p ?o } }")),
    ("q_select_optional", query("SELECT ?s ?x WHERE { ?s <http://e/p> ?o OPTIONAL { ?o <http://e/q> ?x } }")),
    ("q_select_union_filter", query("SELECT ?s WHERE { { ?s <http://e/p> ?o } UNION { ?s <http://e/q> ?o } FILTER(isIRI(?s)) }")),
    ("q_select_minus", query("SELECT ?s WHERE { ?s ?p ?o MINUS { ?s <http://e/q> ?x } }")),
    ("q_select_agg", query("SELECT ?p (COUNT(?o) AS ?n) (SAMPLE(?s) AS ?x) WHERE { ?s ?p ?o } GROUP BY ?p ORDER BY ?p")),
    ("q_select_sub_order", query("SELECT ?s WHERE { { SELECT DISTINCT ?s WHERE { ?s ?p ?o } ORDER BY ?s LIMIT 3 } }")),
    ("q_select_bind_values", query("SELECT ?s ?l WHERE { VALUES ?s { <http://e/a> <http://e/b> } ?s ?p ?o BIND(STR(?o) AS ?l) }")),
    ("q_select_exists", query("SELECT ?s WHERE { ?s ?p ?o FILTER NOT EXISTS { ?o ?q ?z } }")),
    ("q_select_initbindings", lambda g, w: g.query("SELECT ?o WHERE { ?s ?p ?o }", initBindings={"s": A})),
    ("q_ask", query("ASK { ?s ?p ?o }")), ("q_ask_graph", query("ASK { GRAPH ?g { ?s <http://e/q> ?o } }")),
    ("q_construct", query("CONSTRUCT { ?o <http://e/r> ?s } WHERE { ?s ?p ?o FILTER(!isLiteral(?o)) }")),
    ("q_construct_bnode", query("CONSTRUCT { [] <http://e/r> ?s } WHERE { ?s ?p ?o }")),
    ("q_construct_same", query("CONSTRUCT { ?s ?p ?o } WHERE { ?s ?p ?o }")),
    ("q_construct_graph", query("CONSTRUCT { ?s ?p ?g } WHERE { GRAPH ?g { ?s ?p ?o } }")),
    ("q_describe_iri", query("DESCRIBE <http://e/a>")), ("q_describe_var", query("DESCRIBE ?s WHERE { ?s <http://e/p> ?o }")),
    ("q_path_plus", query("SELECT ?s ?o WHERE { ?s <http://e/p>+ ?o }")),
    ("q_path_star", query("SELECT ?o WHERE { <http://e/a> <http://e/p>* ?o }")),
    ("q_path_inv_seq", query("SELECT ?s ?o WHERE { ?s ^<http://e/p>/<http://e/q>? ?o }")),
    ("q_path_alt_neg", query("SELECT ?s ?o WHERE { ?s (<http://e/p>|!<http://e/q>) ?o }")),
    ("q_result_json", lambda g, w: g.query("SELECT * WHERE { ?s ?p ?o } ORDER BY ?s ?p ?o").serialize(format="json")),
    ("q_result_xml", lambda g, w: g.query("ASK { ?s ?p ?o }").serialize(format="xml")),
    ("q_prepared", lambda g, w: g.query(rdflib.plugins.sparql.prepareQuery("SELECT ?s WHERE { ?s ?p ?o }"))),
    # --- property paths through the API
    ("path_api_plus", lambda g, w: list(g.triples((None, MulPath(P, "+"), None)))),
    ("path_api_star_from", lambda g, w: list(g.triples((A, P * "*", None)))),
    ("path_api_seq_inv", lambda g, w: list(g.triples((None, SequencePath(P, InvPath(P)), None)))),
    ("path_api_alt_neg", lambda g, w: list(g.triples((None, AlternativePath(P, NegatedPath(Q)), B)))),
    ("path_api_objects", lambda g, w: list(g.objects(A, P / Q))),
    ("path_slice", lambda g, w: list(g[A: P * "+"])),
    # --- comparison / canonical forms
    ("cmp_isomorphic_self", lambda g, w: isomorphic(_as_graph(g, w), _as_graph(g, w))),
    ("cmp_isomorphic_other", lambda g, w: isomorphic(_as_graph(g, w), _other(g, w))),
    ("cmp_method_isomorphic", lambda g, w: _as_graph(g, w).isomorphic(_other(g, w))),
    ("cmp_to_isomorphic", lambda g, w: to_isomorphic(_as_graph(g, w)).internal_hash()),
    ("cmp_to_isomorphic_eq", lambda g, w: to_isomorphic(_as_graph(g, w)) == to_isomorphic(_other(g, w))),
    ("cmp_to_canonical", lambda g, w: to_canonical_graph(_as_graph(g, w))),
    ("cmp_graph_diff", lambda g, w: graph_diff(_as_graph(g, w), _other(g, w))),
    ("cmp_graph_diff_self", lambda g, w: graph_diff(_as_graph(g, w), _as_graph(g, w))),
    ("cmp_similar", lambda g, w: similar(_as_graph(g, w), _other(g, w))),
    ("cmp_eq_hash_lt", lambda g, w: (g == _other(g, w), hash(g) == hash(g), g < _other(g, w), g != g)),
    # --- iteration, len, in, slicing, accessors
    ("iter", lambda g, w: list(g)), ("len", lambda g, w: len(g)), ("bool", lambda g, w: bool(g)),
    ("in_triple", lambda g, w: ((A, P, B) in g, (None, None, None) in g, (A, None, Literal("")) in g)),
    ("slice_all", _slice_all), ("getitem_node", lambda g, w: list(g[A])),
    ("triples_pat", lambda g, w: list(g.triples((None, P, None)))),
    ("triples_choices", lambda g, w: list(g.triples_choices(([A, B], P, None)))),
    ("subjects_etc", lambda g, w: (sorted(map(repr, g.subjects(P, None))), sorted(map(repr, g.predicates(A, None))),
                                   sorted(map(repr, g.objects(None, P))), sorted(map(repr, g.subject_objects(P))),
                                   sorted(map(repr, g.subject_predicates(B))), sorted(map(repr, g.predicate_objects(A))),
                                   sorted(map(repr, g.subjects(unique=True))))),
    ("value", lambda g, w: (g.value(A, P, None, any=True) is None, g.value(None, P, B, any=True) is None, g.value(A, P, default=3) is None)),
    ("all_nodes", lambda g, w: sorted(map(repr, g.all_nodes()))), ("connected", lambda g, w: g.connected()),
    ("cbd", lambda g, w: g.cbd(A)), ("transitive", lambda g, w: (list(g.transitive_objects(A, P)), list(g.transitive_subjects(P, B)))),
    ("transitive_closure", lambda g, w: list(g.transitiveClosure(lambda n, gr: gr.objects(n, P), A))),
    ("items_seq", lambda g, w: (list(g.items(A)), len(list(g.objects(A, P))))),
    ("collection_read", lambda g, w: list(g.collection(A))),
    ("resource_read", lambda g, w: (sorted(map(repr, g.resource(A).objects(P))), g.resource(A).value(P) is None,
                                    sorted(repr((str(a.identifier) if hasattr(a, "identifier") else a, str(b.identifier) if hasattr(b, "identifier") else b)) for a, b in g.resource(A).predicate_objects()))),
    ("qname_n3", lambda g, w: (g.qname(str(P)), g.compute_qname(str(Q), generate=False) if False else None, A.n3(g.namespace_manager), list(g.namespaces())[:0])),
    ("namespaces", lambda g, w: sorted((p, str(n)) for p, n in g.namespaces())),
    ("n3_str_repr", lambda g, w: (g.n3() if not isinstance(g, ConjunctiveGraph) else None, str(g), bool(repr(g)))),
    ("skolemize", lambda g, w: _as_graph(g, w).skolemize(authority="http://sk/")),
    ("de_skolemize", lambda g, w: _as_graph(g, w).de_skolemize()),
    ("set_ops", lambda g, w: (_as_graph(g, w) + _other(g, w), _as_graph(g, w) - _other(g, w), _as_graph(g, w) * _other(g, w),
                              _as_graph(g, w) ^ _other(g, w))),
    ("copy_into_new", lambda g, w: Graph().__iadd__(_as_graph(g, w))),
    ("pickle_dumps", lambda g, w: len(pickle.dumps(_as_graph(g, w))) > 0),
    ("toPython_identifier", lambda g, w: (g.toPython() is g, _as_graph(g, w).identifier == _as_graph(g, w).identifier)),
    ("absolutize", lambda g, w: g.absolutize("x#y")),
    # --- dataset-level reads (applied to the front end only)
    ("ds_quads_all", lambda g, w: list(g.quads())), ("ds_quads_pat", lambda g, w: list(g.quads((None, P, None, None)))),
    ("ds_quads_in_graph", lambda g, w: list(g.quads((None, None, None, G1)))),
    ("ds_contexts", lambda g, w: sorted(repr(c.identifier) for c in g.contexts())),
    ("ds_contexts_triple", lambda g, w: sorted(repr(c.identifier) for c in g.contexts((A, P, B)))),
    ("ds_graphs", lambda g, w: sorted(repr(c.identifier) for c in (g.graphs() if isinstance(g, Dataset) else g.contexts()))),
    ("ds_get_context", lambda g, w: list(g.get_context(G1))), ("ds_get_context_unknown", lambda g, w: list(g.get_context(URIRef("urn:nowhere")))),
    ("ds_get_graph", lambda g, w: list(g.get_graph(G1))),
    ("ds_triples_ctx", lambda g, w: list(g.triples((None, None, None), context=g.get_context(G1)))),
    ("ds_triples_quad", lambda g, w: list(g.triples((None, None, None, G1)))),
    ("ds_in_quad", lambda g, w: ((A, P, B, G1) in g, (A, P, B, GRAPH_POOL[2]) in g, (A, P, B, None) in g)),
    ("ds_default", lambda g, w: list(g.default_graph if isinstance(g, Dataset) else g.default_context)),
    ("ds_iter_views", lambda g, w: [sorted(map(repr, c)) for c in sorted(g.contexts(), key=lambda c: repr(c.identifier))]),
    ("ds_union_toggle_read", lambda g, w: w.union_read(g)),
    # --- reads that are handed a Graph object backed by ANOTHER store (known finding F19)
    ("ds_triples_foreign_ctx", lambda g, w: list(g.triples((None, None, None), context=_foreign(g, w)))),
    ("ds_in_foreign_quad", lambda g, w: (C_, Q, C_, _foreign(g, w)) in g),
    ("ds_quads_foreign", lambda g, w: list(g.quads((None, None, None, _foreign(g, w))))),
]
READ_ID = {name: i for i, (name, _) in enumerate(READS)}
FOREIGN_READS = {"ds_triples_foreign_ctx": "OTriples", "ds_in_foreign_quad": "OContains", "ds_quads_foreign": "OQuads"}
DS_ONLY = {n for n, _ in READS if n.startswith("ds_")}
SKIP_RAND = True  # RAND()/NOW()/UUID()/BNODE() queries are outside the property's repeatability clause


class PWorld(World):
    def __init__(self, is_ds, du):
        super().__init__(is_ds, [], default_union=du)
        self.du = du

    def other_ds(self):
        o = Dataset()
        o.add((A, P, B, G1))
        o.add((A, Q, Literal("x")))
        return o

    def union_read(self, g):
        old = g.default_union
        try:
            g.default_union = not old
            a = sorted(map(repr, g.triples((None, None, None))))
        finally:
            g.default_union = old
        return (a, sorted(map(repr, g.triples((None, None, None)))))

    def snap(self):
        """quads and graph names, read straight off the store (no front-end method that might write)"""
        quads = []
        for (s, p, o), ctxs in self.store.triples((None, None, None), None):
            cs = list(ctxs)
            if not cs:
                quads.append([term_id(s), term_id(p), term_id(o), 996])  # in the union only: no graph
            for c in cs:
                quads.append([term_id(s), term_id(p), term_id(o), self.gid(c)])
        names = sorted(self.gid(c) for c in self.store.contexts())
        return [sorted(quads), names]


def run_read(w, g, name):
    fn = READS[READ_ID[name]][1]
    try:
        return ("ok", ans(fn(g, w)))
    except Exception as e:  # noqa: BLE001
        return ("exc", type(e).__name__)


class C13(Suite):
    name = "purity"
    imports = "From RV Require Import Purity.Model."
    case_ty = "pcase"
    obs_ty = "pobs"
    kf = "pkf"
    kf_ids = {1: "F19"}
    corr = ("every read-only entry point of Graph / ConjunctiveGraph / Dataset, the serialiser plugins, the SPARQL engine, "
            "rdflib.compare and rdflib.paths; modelled in Coq: ConjunctiveGraph._graph/triples/quads/__contains__, "
            "Dataset.graphs, contexts, get_context, __len__")
    quick_n = 260
    thorough_n = 6000
    timeout_s = 60.0

    # case = {"ds": bool, "du": bool, "build": [C02 write ops], "reads": [[read name, target]]}; target "ds" or a graph number
    def gen(self, rng, i):
        is_ds = rng.random() < 0.8
        du = rng.random() < 0.5
        subs = rng.sample(SUBJ, rng.choice([2, 3]))
        objs = rng.sample(OBJ, rng.choice([2, 3]))
        pool = [[s, p, o] for s in subs for p in PRED for o in objs]
        rng.shuffle(pool)
        vocab = pool[: rng.choice([1, 2, 3, 4, 6])]
        if rng.random() < 0.3:  # a cycle and a chain for the path reads
            vocab += [[1, 3, 2], [2, 3, 1], [2, 4, 12]]
        used = list(dict.fromkeys(rng.sample([0, 1, 2, 3, 4, 5], rng.choice([1, 2, 3, 4])) + ([1] if rng.random() < 0.6 else [])))
        build = []
        for t in vocab:
            for c in used:
                if rng.random() < 0.45:
                    ca = ["q", ["id", c]]
                    if c == 0 and rng.random() < 0.6:
                        ca = "t" if rng.random() < 0.7 else ["q", None]
                    build.append(["add", t, ca])
        if is_ds:
            for c in [1, 2, 3, 4, 5]:
                if rng.random() < 0.2:
                    build.append(["graph", ["id", c]])  # possibly an empty known graph
            if rng.random() < 0.15:
                build.append(["rmgraph", ["id", rng.choice(used)]])
        if rng.random() < 0.15 and build:
            build.append(["rem", [None, None, None], ["q", ["id", rng.choice(used)]]])  # emptied but still known
        rng.shuffle(build)
        reads = []
        names = [n for n, _ in READS]
        for _ in range(rng.choice([4, 6, 8, 10])):
            n = rng.choice(names)
            if n in FOREIGN_READS and rng.random() < 0.7:
                n = rng.choice(names)
            if n in DS_ONLY or rng.random() < 0.55:
                tgt = "ds"
            else:
                tgt = rng.choice([0, 1, 2, 3, 4, 5])
            reads.append([n, tgt])
        return {"ds": is_ds, "du": du, "build": build, "reads": reads}

    def run_impl(self, case):
        rdflib.plugins.sparql.SPARQL_LOAD_GRAPHS = False
        w = PWorld(case["ds"], case["du"])
        for op in case["build"]:
            c02.do_op(w, op)
        w.d.default_union = case["du"]
        obs = [w.snap(), []]
        for name, tgt in case["reads"]:
            g = w.d if tgt == "ds" else Graph(w.store, identifier=w.name(tgt))
            a1 = run_read(w, g, name)
            mid = w.snap()
            a2 = run_read(w, g, name)
            after = w.snap()
            # the second call must not write either; its snapshot is folded into the flag
            obs[1].append([mid, bool(same_answer(a1, a2) and after == mid)])
        return obs

    def on_timeout(self, case):
        return [[[], []], []]

    def coq_case(self, case):
        du = cbool(case["du"])
        f = "(GForeign 1%N [(12%N, 4%N, 12%N)])"
        pall = "(None, None, None)"
        modelled = {
            "ds_triples_foreign_ctx": f"RdTriples {pall} CTriple (Some {f}) {du}",
            "ds_in_foreign_quad": f"RdContains (Some 12%N, Some 4%N, Some 12%N) (CQuad (Some {f})) {du}",
            "ds_quads_foreign": f"RdQuads {pall} (CQuad (Some {f}))",
            "ds_triples_ctx": f"RdTriples {pall} CTriple (Some (GView 1%N)) {du}",
            "ds_triples_quad": f"RdTriples {pall} (CQuad (Some (GId 1%N))) None {du}",
            "ds_quads_in_graph": f"RdQuads {pall} (CQuad (Some (GId 1%N)))",
            "ds_quads_all": f"RdQuads {pall} CTriple",
            "ds_graphs": "RdGraphs", "ds_contexts": "RdGraphs",
        }
        reads = []
        for name, tgt in case["reads"]:
            if name in modelled and tgt == "ds":
                reads.append(modelled[name])
            else:
                reads.append(f"RdOpaque {cN(READ_ID[name])}")
        return ("{| p_ds := " + cbool(case["ds"]) + "; p_build := " + clist(c_op(o) for o in case["build"])
                + "; p_reads := " + clist(reads) + " |}")

    def coq_obs(self, obs):
        def snap(s):
            return ctuple(clist(c_quad(q) for q in s[0]), clist(cN(x) for x in s[1])) if s else "([], [])"
        return ctuple(snap(obs[0]), clist(ctuple(snap(s), cbool(b)) for s, b in obs[1]))

    def nontrivial(self, case, obs):
        return len(obs[0][0]) >= 1 and len(case["reads"]) >= 1

    def features(self, case, obs):
        f = {"front_" + ("dataset" if case["ds"] else "conjunctive"): 1, "default_union": int(case["du"]),
             "reads_total": len(case["reads"]), "quads_in_state": len(obs[0][0]) if obs and obs[0] else 0}
        if obs and obs[0]:
            nonempty = {q[3] for q in obs[0][0]}
            f["state_has_bnode_named_graph"] = int(bool(nonempty & {3, 4}))
            f["state_has_empty_known_graph"] = int(any(n not in nonempty for n in obs[0][1]))
        for name, tgt in case["reads"]:
            fam = name.split("_")[0]
            f["read_" + fam] = f.get("read_" + fam, 0) + 1
            f["target_" + ("front_end" if tgt == "ds" else "graph_view")] = f.get("target_" + ("front_end" if tgt == "ds" else "graph_view"), 0) + 1
        return f

    def shrink(self, case):
        for i in range(len(case["reads"])):
            yield dict(case, reads=case["reads"][:i] + case["reads"][i + 1:])
        for i in range(len(case["build"])):
            yield dict(case, build=case["build"][:i] + case["build"][i + 1:])

    def sweep(self):
        """every read of the catalogue on the front end and on four graph views of three fixed states x default_union"""
        states = [
            [["add", [1, 3, 2], "t"], ["add", [1, 3, 2], ["q", ["id", 1]]], ["add", [8, 4, 5], ["q", ["id", 3]]],
             ["add", [2, 3, 1], ["q", ["id", 1]]], ["add", [2, 4, 13], ["q", ["id", 4]]], ["graph", ["id", 2]]],
            [["add", [13, 3, 8], ["q", ["id", 3]]], ["add", [1, 4, 7], ["q", ["id", 3]]]],
            [["graph", ["id", 1]]],
        ]
        for is_ds in (True, False):
            for du in (False, True):
                for build in states:
                    if not is_ds:
                        build = [o for o in build if o[0] != "graph"]
                    for name, _ in READS:
                        tgts = ["ds"] if name in DS_ONLY else ["ds", 0, 1, 3, 5]
                        yield {"ds": is_ds, "du": du, "build": build, "reads": [[name, t] for t in tgts]}


SUITES = [C13()]

TRUSTED = [
    "Coq 8.16.1 kernel and standard library",
    "harness/c13.py: the catalogue of read-only calls, the comparison of two answers (rows and text lines as multisets up to a "
    "blank-node bijection found by backtracking, graphs by rdflib.compare's internal_hash) and the snapshot read straight off Memory (triples(), contexts())",
    "for the reads the Coq model treats as opaque (serialisers, SPARQL engine, compare, slicing) purity holds in the model by "
    "construction: only the snapshot runs speak for them",
]
ASSUMPTIONS = [
    "store is rdflib.plugins.stores.memory.Memory; SPARQL_LOAD_GRAPHS is off (FROM clauses never fetch)",
    "queries using RAND/NOW/UUID/BNODE() are not issued (outside the repeatability clause)",
    "namespace bindings are not part of the observed state (serialisers and qname() may bind prefixes)",
]
RULE = ("a dataset (Dataset 80% / ConjunctiveGraph 20%, default_union on/off) built from 1-9 valid triples over 1-4 graph "
        "names (IRI- and bnode-named, empty known graphs, emptied graphs), then 4-10 reads drawn from a catalogue of "
        f"{len(READS)} read-only calls, each applied to the front end or to a Graph(store, name) view, each called twice; "
        "distinct by full case content; non-trivial = the state holds at least one quad")
