"""C13 - reads are pure and repeatable: every read-only API call (serialise in every format, SPARQL
SELECT/ASK/CONSTRUCT/DESCRIBE, property paths, isomorphism / canonical forms / graph_diff, slicing,
iteration, len, in, ...) on generated datasets and graphs leaves quads and graph names unchanged and
gives the same answer twice.  Correspondence with coq/Purity/Model.v (which reuses the C02 model)."""
from __future__ import annotations

import copy
import io
import os
import pickle
import re
import shutil
import tempfile
import warnings

from .core import BUILD, Suite, cN, cbool, clist, copt, ctuple
from .terms import GRAPH_POOL, GRAPH_ID, rdflib, term, term_id, tkey
from . import c02
from .c02 import World, c_garg, c_ctxarg, c_pat, c_quad, c_triple, c_op, pat_terms

warnings.filterwarnings("ignore")
import rdflib.plugins.sparql  # noqa: E402
from rdflib import BNode, ConjunctiveGraph, Dataset, Graph, Literal, URIRef  # noqa: E402
from rdflib.compare import graph_diff, isomorphic, similar, to_canonical_graph, to_isomorphic  # noqa: E402
from rdflib.paths import AlternativePath, InvPath, MulPath, NegatedPath, SequencePath  # noqa: E402

from rdflib.collection import Collection  # noqa: E402
from rdflib.plugins.stores.memory import Memory  # noqa: E402
from rdflib.store import Store  # noqa: E402
from rdflib.graph import ReadOnlyGraphAggregate  # noqa: E402
from rdflib.namespace import RDF, RDFS  # noqa: E402

A, B, C_, P, Q = term(1), term(2), term(12), term(3), term(4)
G1 = GRAPH_POOL[0]

# terms beyond the shared pool (numbers > 100), for RDF lists and containers in the generated states
EXTRA = {101: RDF.first, 102: RDF.rest, 103: RDF.nil, 104: RDF.type, 105: RDF.Seq, 106: RDF._1, 107: RDF._2, 108: RDFS.label}
EXTRA_ID = {tkey(t): i for i, t in EXTRA.items()}
LIST_TRIPLES = [[1, 101, 2], [1, 102, 8], [8, 101, 5], [8, 102, 103]]          # ( <b> "" ) headed by <a>
SEQ_TRIPLES = [[12, 104, 105], [12, 106, 1], [12, 107, 10], [12, 108, 9]]       # <c> a rdf:Seq ; rdf:_1 <a> ; rdf:_2 "x"


# small documents a FROM / FROM NAMED clause can dereference (SPARQL_LOAD_GRAPHS is left at its default, on)
DOCS = os.path.join(BUILD, "c13_docs")
DOC_TTL = os.path.join(DOCS, "doc1.ttl")
DOC_NT = os.path.join(DOCS, "doc2.nt")
F_TTL, F_NT = "file://" + DOC_TTL, "file://" + DOC_NT


def write_docs():
    os.makedirs(DOCS, exist_ok=True)
    for path, text in ((DOC_TTL, "@prefix e: <http://e/> .\ne:a e:q e:c ; e:p e:b .\n_:x e:p \"doc\" .\n"),
                       (DOC_NT, "<http://e/c> <http://e/p> <http://e/a> .\n<http://e/c> <http://e/q> \"nt\" .\n")):
        if not os.path.exists(path) or open(path).read() != text:
            with open(path, "w") as f:
                f.write(text)


def xterm(i):
    return EXTRA[i] if i > 100 else term(i)


def xterm_id(t):
    return EXTRA_ID.get(tkey(t)) or term_id(t)

# vocabulary of VALID triples (IRI/bnode subjects, IRI predicates) so that every serialiser applies
SUBJ = [1, 2, 8, 12, 13]
PRED = [3, 4]
OBJ = [1, 2, 5, 6, 7, 8, 9, 10, 11, 13, 14]

_LBL = re.compile(r"_:[A-Za-z0-9_.-]+|\bN[0-9a-f]{32}\b")  # blank-node labels inside serialised text


def canon_term(t):
    """a term as a comparable value; a blank node keeps its label behind the tag "B" (see rows_equiv)"""
    if isinstance(t, BNode):
        return ("B", str(t))
    if isinstance(t, Graph):
        return canon_term(t.identifier)
    if isinstance(t, Literal):
        return ("L", str(t), str(t.datatype), str(t.language))
    if isinstance(t, rdflib.term.Node):
        return (type(t).__name__, str(t))
    if isinstance(t, (tuple, list)):
        return ("T",) + tuple(canon_term(x) for x in t)
    if isinstance(t, (str, bytes, bool, int, float)) or t is None:
        return ("V", repr(t))
    return ("O", type(t).__name__)


def _is_b(x):
    return isinstance(x, tuple) and len(x) == 2 and x[0] == "B"


def _flat(row):
    """a row with nested tuples flattened, so that every blank node is a top-level cell"""
    out = []
    for x in row:
        if isinstance(x, tuple) and x and x[0] == "T":
            out.append(("(",))
            out.extend(_flat(x[1:]))
            out.append((")",))
        else:
            out.append(x)
    return tuple(out)


class Undecided(Exception):
    pass


UNDECIDED = [0]  # comparisons given up on (counted in the evidence distribution; each counts as "answers differ")


class Ordered:
    """a SELECT result whose query has a top-level ORDER BY: the order of its rows is part of the answer"""

    def __init__(self, result):
        self.result = result


def seq_equiv(ra, rb):
    """equal as SEQUENCES up to one bijection between blank-node labels (built left to right)"""
    ra, rb = [_flat(r) for r in ra], [_flat(r) for r in rb]
    if len(ra) != len(rb):
        return False
    fwd, bwd = {}, {}
    for r1, r2 in zip(ra, rb):
        if len(r1) != len(r2):
            return False
        for x, y in zip(r1, r2):
            if _is_b(x) != _is_b(y):
                return False
            if _is_b(x):
                if fwd.setdefault(x[1], y[1]) != y[1] or bwd.setdefault(y[1], x[1]) != x[1]:
                    return False
            elif x != y:
                return False
    return True


def rows_equiv(ra, rb, budget=200000):
    """equal as MULTISETS of rows up to a bijection between blank-node labels (order of rows is not looked at).
    Backtracking search, rows grouped by their label-blind shape."""
    ra, rb = [_flat(r) for r in ra], [_flat(r) for r in rb]
    if len(ra) != len(rb):
        return False
    if sorted(map(repr, ra)) == sorted(map(repr, rb)):
        return True  # same labels: the usual case, stored blank nodes keep their labels between two calls

    def shape(r):
        return repr(tuple("B" if _is_b(x) else x for x in r))

    ga, gb = {}, {}
    for r in ra:
        ga.setdefault(shape(r), []).append(r)
    for r in rb:
        gb.setdefault(shape(r), []).append(r)
    if {k: len(v) for k, v in ga.items()} != {k: len(v) for k, v in gb.items()}:
        return False
    todo = []
    for k in sorted(ga, key=lambda k: (len(ga[k]), k)):
        if any(_is_b(x) for x in ga[k][0]):
            todo.extend((k, r) for r in ga[k])
    used = {k: [False] * len(v) for k, v in gb.items()}
    fwd, bwd = {}, {}
    steps = [0]

    def bind(r1, r2):
        added = []
        for x, y in zip(r1, r2):
            if _is_b(x):
                if fwd.get(x[1], y[1]) != y[1] or bwd.get(y[1], x[1]) != x[1]:
                    for l1, l2 in added:
                        del fwd[l1], bwd[l2]
                    return None
                if x[1] not in fwd:
                    fwd[x[1]], bwd[y[1]] = y[1], x[1]
                    added.append((x[1], y[1]))
        return added

    def go(i):
        if i == len(todo):
            return True
        steps[0] += 1
        if steps[0] > budget:
            raise Undecided()  # search too large: NOT "equal" - the caller counts it and treats it as a difference
        k, r1 = todo[i]
        for j, r2 in enumerate(gb[k]):
            if used[k][j]:
                continue
            added = bind(r1, r2)
            if added is None:
                continue
            used[k][j] = True
            if go(i + 1):
                return True
            used[k][j] = False
            for l1, l2 in added:
                del fwd[l1], bwd[l2]
        return False

    return go(0)


def text_rows(s):
    """serialised text as rows: one per line, (line with labels blanked, label, label, ...)"""
    rows = []
    for line in s.splitlines():
        labels = _LBL.findall(line)
        rows.append((("V", _LBL.sub("_:?", line)),) + tuple(("B", lab) for lab in labels))
    return rows


def ans(x):
    """comparable form of the answer of a read (compared with same_answer, never with ==)"""
    if isinstance(x, bytes):
        x = x.decode("utf-8", "replace")
    if isinstance(x, str):
        return ("text", x)
    if isinstance(x, (bool, int, float)) or x is None:
        return ("val", repr(x))
    if isinstance(x, rdflib.graph.ReadOnlyGraphAggregate):
        return ("graph", to_isomorphic(Graph().__iadd__(x.triples((None, None, None)))).internal_hash())
    if isinstance(x, Graph):
        if isinstance(x, (Dataset, ConjunctiveGraph)):
            return ("rows", None, [tuple(canon_term(c) for c in q) for q in x.quads()])
        return ("graph", to_isomorphic(x).internal_hash())  # canonical up to blank-node renaming, order-free
    if isinstance(x, Ordered):
        x = x.result
        return ("seq", [str(v) for v in (x.vars or [])], [tuple(canon_term(c) for c in r) for r in x])
    if isinstance(x, rdflib.query.Result):
        if x.type == "ASK":
            return ("val", repr(x.askAnswer))
        if x.type in ("CONSTRUCT", "DESCRIBE"):
            return ("graph", to_isomorphic(x.graph).internal_hash())
        return ("rows", [str(v) for v in (x.vars or [])], [tuple(canon_term(c) for c in r) for r in x])
    if isinstance(x, rdflib.term.Node):
        return ("rows", None, [(canon_term(x),)])
    if isinstance(x, tuple):
        return ("tuple", [ans(y) for y in x])
    try:
        items = list(x)
    except TypeError:
        return ("val", repr(type(x)))
    return ("rows", None, [tuple(canon_term(c) for c in r) if isinstance(r, (tuple, list)) else (canon_term(r),) for r in items])


def equiv(a, b):
    if a[0] != b[0]:
        return False
    if a[0] == "rows":   # a SPARQL solution multiset / what an iterator over a set yields: order is not an answer
        return a[1] == b[1] and rows_equiv(a[2], b[2])
    if a[0] == "seq":    # ORDER BY: row by row
        return a[1] == b[1] and seq_equiv(a[2], b[2])
    if a[0] == "text":   # serialised text: line by line, blank-node labels renamed consistently
        return a[1] == b[1] or seq_equiv(text_rows(a[1]), text_rows(b[1]))
    if a[0] == "tuple":
        return len(a[1]) == len(b[1]) and all(equiv(x, y) for x, y in zip(a[1], b[1]))
    return a == b


def same_answer(a, b):
    """both raised the same exception, or both answered and the answers are equal up to the order in which a set was
    walked (rows, lines) and up to a bijection between blank-node labels"""
    if a[0] != b[0]:
        return False
    if a[0] == "exc":
        return a == b  # the same exception class both times (raised reads are counted in the evidence)
    try:
        return equiv(a[1], b[1])
    except Undecided:
        UNDECIDED[0] += 1
        return False


# ------------------------------------------------------------------ the catalogue of reads
def ser(fmt, **kw):
    return lambda g, w: g.serialize(format=fmt, **kw)


def query(q, **kw):
    return lambda g, w: g.query(q, **kw)


def _slice_all(g, w):
    out = []
    for s in (None, A, BNode("b1")):
        for p in (None, P):
            for o in (None, B, Literal("")):
                out.append(sorted(repr(x) for x in g[s:p:o]))
    return repr(out)


def _other(g, w):
    o = Graph(identifier=URIRef("urn:x-verif:other"))
    o.add((A, P, B))
    o.add((BNode(), P, Literal("x")))
    for t in list(g.triples((None, None, None)))[:2]:
        o.add(t[:3])
    return o


def _as_graph(g, w):
    """compare functions want triple graphs: a dataset is looked at through its default graph"""
    if isinstance(g, Dataset):
        return g.default_graph
    if isinstance(g, ConjunctiveGraph):
        return g.default_context
    return g


def _content(text, fmt):
    """what a serialisation SAYS (parsed back into a scratch graph, compared up to isomorphism).  Used where several graphs
    of one store are serialised in a row: serialising one graph may bind a generated prefix (ns1) in the store's shared
    namespace table, which changes the text - not the content - of what is written for another graph afterwards; prefix
    bindings are property C17's state, not C13's."""
    return "content:" + str(to_isomorphic(Graph().parse(data=text, format=fmt)).internal_hash())


def _try(f):
    try:
        return f()
    except Exception as e:  # noqa: BLE001
        return "exc:" + type(e).__name__


def _foreign(g, w):
    f = Graph(identifier=G1)
    f.add((C_, Q, C_))
    return f


READS = [
    # --- serialisers (Dataset and Graph)
    ("ser_nt", ser("nt")), ("ser_nt11", ser("nt11")), ("ser_turtle", ser("turtle")), ("ser_longturtle", ser("longturtle")),
    ("ser_n3", ser("n3")), ("ser_xml", ser("xml")), ("ser_pretty_xml", ser("pretty-xml")),
    ("ser_jsonld", ser("json-ld")), ("ser_jsonld_auto", ser("json-ld", auto_compact=True)),
    ("ser_hext", ser("hext")), ("ser_trig", ser("trig")), ("ser_trix", ser("trix")), ("ser_nquads", ser("nquads")),
    ("ser_patch_add", ser("patch", operation="add")), ("ser_patch_remove", ser("patch", operation="remove")),
    ("ser_patch_target", lambda g, w: g.serialize(format="patch", target=w.other_ds())),
    ("ser_default", lambda g, w: g.serialize()),
    ("ser_turtle_base", ser("turtle", base="http://e/")), ("ser_bytes", ser("turtle", encoding="utf-8")),
    ("ser_dest", lambda g, w: (g.serialize(destination=io.BytesIO(), format="nt"), None)[1]),
    ("print", lambda g, w: g.print(out=io.StringIO()) if hasattr(g, "print") else None),
    # --- SPARQL
    ("q_select_all", query("SELECT * WHERE { ?s ?p ?o }")),
    ("q_select_graph_var", query("SELECT ?g ?s ?o WHERE { GRAPH ?g { ?s ?p ?o } }")),
    ("q_select_graph_iri", query("SELECT ?s ?o WHERE { GRAPH <urn:g:1> { ?s ?p ?o } }")),
    ("q_select_from", query("SELECT ?s ?o FROM <urn:g:1> WHERE { ?s ?p ?o }")),
    ("q_select_from_named", query("SELECT ?g ?s FROM NAMED <urn:g:2> WHERE { GRAPH ?g { ?s ?p ?o } }")),
    ("q_select_optional", query("SELECT ?s ?x WHERE { ?s <http://e/p> ?o OPTIONAL { ?o <http://e/q> ?x } }")),
    ("q_select_union_filter", query("SELECT ?s WHERE { { ?s <http://e/p> ?o } UNION { ?s <http://e/q> ?o } FILTER(isIRI(?s)) }")),
    ("q_select_minus", query("SELECT ?s WHERE { ?s ?p ?o MINUS { ?s <http://e/q> ?x } }")),
    ("q_select_agg", lambda g, w: Ordered(g.query("SELECT ?p (COUNT(?o) AS ?n) WHERE { ?s ?p ?o } GROUP BY ?p ORDER BY ?p"))),
    ("q_select_order_by", lambda g, w: Ordered(g.query("SELECT ?s ?p ?o WHERE { ?s ?p ?o } ORDER BY ?p DESC(?s) ?o"))),
    ("q_select_sample", query("SELECT ?p (SAMPLE(?s) AS ?x) WHERE { ?s ?p ?o } GROUP BY ?p")),
    ("q_select_sub_order", query("SELECT ?s WHERE { { SELECT DISTINCT ?s WHERE { ?s ?p ?o } ORDER BY ?s LIMIT 3 } }")),
    ("q_select_bind_values", query("SELECT ?s ?l WHERE { VALUES ?s { <http://e/a> <http://e/b> } ?s ?p ?o BIND(STR(?o) AS ?l) }")),
    ("q_select_exists", query("SELECT ?s WHERE { ?s ?p ?o FILTER NOT EXISTS { ?o ?q ?z } }")),
    ("q_select_initbindings", lambda g, w: g.query("SELECT ?o WHERE { ?s ?p ?o }", initBindings={"s": A})),
    ("q_ask", query("ASK { ?s ?p ?o }")), ("q_ask_graph", query("ASK { GRAPH ?g { ?s <http://e/q> ?o } }")),
    ("q_construct", query("CONSTRUCT { ?o <http://e/r> ?s } WHERE { ?s ?p ?o FILTER(!isLiteral(?o)) }")),
    ("q_construct_bnode", query("CONSTRUCT { [] <http://e/r> ?s } WHERE { ?s ?p ?o }")),
    ("q_construct_same", query("CONSTRUCT { ?s ?p ?o } WHERE { ?s ?p ?o }")),
    ("q_construct_graph", query("CONSTRUCT { ?s ?p ?g } WHERE { GRAPH ?g { ?s ?p ?o } }")),
    ("q_describe_iri", query("DESCRIBE <http://e/a>")), ("q_describe_var", query("DESCRIBE ?s WHERE { ?s <http://e/p> ?o }")),
    ("q_path_plus", query("SELECT ?s ?o WHERE { ?s <http://e/p>+ ?o }")),
    ("q_path_star", query("SELECT ?o WHERE { <http://e/a> <http://e/p>* ?o }")),
    ("q_path_inv_seq", query("SELECT ?s ?o WHERE { ?s ^<http://e/p>/<http://e/q>? ?o }")),
    ("q_path_alt_neg", query("SELECT ?s ?o WHERE { ?s (<http://e/p>|!<http://e/q>) ?o }")),
    ("q_result_json", lambda g, w: g.query("SELECT * WHERE { ?s ?p ?o } ORDER BY ?s ?p ?o").serialize(format="json")),
    ("q_result_xml", lambda g, w: g.query("ASK { ?s ?p ?o }").serialize(format="xml")),
    ("q_prepared", lambda g, w: g.query(rdflib.plugins.sparql.prepareQuery("SELECT ?s WHERE { ?s ?p ?o }"))),
    # --- property paths through the API
    ("path_api_plus", lambda g, w: list(g.triples((None, MulPath(P, "+"), None)))),
    ("path_api_star_from", lambda g, w: list(g.triples((A, P * "*", None)))),
    ("path_api_seq_inv", lambda g, w: list(g.triples((None, SequencePath(P, InvPath(P)), None)))),
    ("path_api_alt_neg", lambda g, w: list(g.triples((None, AlternativePath(P, NegatedPath(Q)), B)))),
    ("path_api_objects", lambda g, w: list(g.objects(A, P / Q))),
    ("path_slice", lambda g, w: list(g[A: P * "+"])),
    # --- comparison / canonical forms
    ("cmp_isomorphic_self", lambda g, w: isomorphic(_as_graph(g, w), _as_graph(g, w))),
    ("cmp_isomorphic_other", lambda g, w: isomorphic(_as_graph(g, w), _other(g, w))),
    ("cmp_method_isomorphic", lambda g, w: _as_graph(g, w).isomorphic(_other(g, w))),
    ("cmp_to_isomorphic", lambda g, w: to_isomorphic(_as_graph(g, w)).internal_hash()),
    ("cmp_to_isomorphic_eq", lambda g, w: to_isomorphic(_as_graph(g, w)) == to_isomorphic(_other(g, w))),
    ("cmp_to_canonical", lambda g, w: to_canonical_graph(_as_graph(g, w))),
    ("cmp_graph_diff", lambda g, w: graph_diff(_as_graph(g, w), _other(g, w))),
    ("cmp_graph_diff_self", lambda g, w: graph_diff(_as_graph(g, w), _as_graph(g, w))),
    ("cmp_similar", lambda g, w: similar(_as_graph(g, w), _other(g, w))),
    ("cmp_eq_hash_lt", lambda g, w: (g == _other(g, w), hash(g) == hash(g), g < _other(g, w), g != g)),
    # --- iteration, len, in, slicing, accessors
    ("iter", lambda g, w: list(g)), ("len", lambda g, w: len(g)), ("bool", lambda g, w: bool(g)),
    ("in_triple", lambda g, w: ((A, P, B) in g, (None, None, None) in g, (A, None, Literal("")) in g)),
    ("slice_all", _slice_all), ("getitem_node", lambda g, w: list(g[A])),
    ("triples_pat", lambda g, w: list(g.triples((None, P, None)))),
    ("triples_choices", lambda g, w: list(g.triples_choices(([A, B], P, None)))),
    ("subjects_etc", lambda g, w: (sorted(map(repr, g.subjects(P, None))), sorted(map(repr, g.predicates(A, None))),
                                   sorted(map(repr, g.objects(None, P))), sorted(map(repr, g.subject_objects(P))),
                                   sorted(map(repr, g.subject_predicates(B))), sorted(map(repr, g.predicate_objects(A))),
                                   sorted(map(repr, g.subjects(unique=True))))),
    ("value", lambda g, w: (g.value(A, P, None, any=True) is None, g.value(None, P, B, any=True) is None, g.value(A, P, default=3) is None)),
    ("all_nodes", lambda g, w: sorted(map(repr, g.all_nodes()))), ("connected", lambda g, w: g.connected()),
    ("cbd", lambda g, w: g.cbd(A)), ("transitive", lambda g, w: (list(g.transitive_objects(A, P)), list(g.transitive_subjects(P, B)))),
    ("transitive_closure", lambda g, w: list(g.transitiveClosure(lambda n, gr: gr.objects(n, P), A))),
    ("items_seq", lambda g, w: (list(g.items(A)), len(list(g.objects(A, P))))),
    ("collection_read", lambda g, w: list(g.collection(A))),
    ("resource_read", lambda g, w: (sorted(map(repr, g.resource(A).objects(P))), g.resource(A).value(P) is None,
                                    sorted(repr((str(a.identifier) if hasattr(a, "identifier") else a, str(b.identifier) if hasattr(b, "identifier") else b)) for a, b in g.resource(A).predicate_objects()))),
    ("qname_n3", lambda g, w: (g.qname(str(P)), g.compute_qname(str(Q), generate=False) if False else None, A.n3(g.namespace_manager), list(g.namespaces())[:0])),
    ("namespaces", lambda g, w: sorted((p, str(n)) for p, n in g.namespaces())),
    ("n3_str_repr", lambda g, w: (g.n3() if not isinstance(g, ConjunctiveGraph) else None, str(g), bool(repr(g)))),
    ("skolemize", lambda g, w: _as_graph(g, w).skolemize(authority="http://sk/")),
    ("de_skolemize", lambda g, w: _as_graph(g, w).de_skolemize()),
    ("set_ops", lambda g, w: (_as_graph(g, w) + _other(g, w), _as_graph(g, w) - _other(g, w), _as_graph(g, w) * _other(g, w),
                              _as_graph(g, w) ^ _other(g, w))),
    ("copy_into_new", lambda g, w: Graph().__iadd__(_as_graph(g, w))),
    ("pickle_dumps", lambda g, w: len(pickle.dumps(_as_graph(g, w))) > 0),
    ("toPython_identifier", lambda g, w: (g.toPython() is g, _as_graph(g, w).identifier == _as_graph(g, w).identifier)),
    ("absolutize", lambda g, w: g.absolutize("x#y")),
    # --- dataset-level reads (applied to the front end only)
    ("ds_quads_all", lambda g, w: list(g.quads())), ("ds_quads_pat", lambda g, w: list(g.quads((None, P, None, None)))),
    ("ds_quads_in_graph", lambda g, w: list(g.quads((None, None, None, G1)))),
    ("ds_contexts", lambda g, w: sorted(repr(c.identifier) for c in g.contexts())),
    ("ds_contexts_triple", lambda g, w: sorted(repr(c.identifier) for c in g.contexts((A, P, B)))),
    ("ds_graphs", lambda g, w: sorted(repr(c.identifier) for c in (g.graphs() if isinstance(g, Dataset) else g.contexts()))),
    ("ds_get_context", lambda g, w: list(g.get_context(G1))), ("ds_get_context_unknown", lambda g, w: list(g.get_context(URIRef("urn:nowhere")))),
    ("ds_get_graph", lambda g, w: list(g.get_graph(G1))),
    ("ds_triples_ctx", lambda g, w: list(g.triples((None, None, None), context=g.get_context(G1)))),
    ("ds_triples_quad", lambda g, w: list(g.triples((None, None, None, G1)))),
    ("ds_in_quad", lambda g, w: ((A, P, B, G1) in g, (A, P, B, GRAPH_POOL[2]) in g, (A, P, B, None) in g)),
    ("ds_default", lambda g, w: list(g.default_graph if isinstance(g, Dataset) else g.default_context)),
    ("ds_iter_views", lambda g, w: [sorted(map(repr, c)) for c in sorted(g.contexts(), key=lambda c: repr(c.identifier))]),
    ("ds_union_toggle_read", lambda g, w: w.union_read(g)),
    # --- wider catalogue: dataset clauses, more comparisons, files, per-view reads, Resource / Collection / Seq
    ("q_from_two", query("SELECT ?s ?o FROM <urn:g:1> FROM <urn:g:2> WHERE { ?s ?p ?o }")),
    ("q_from_and_named", query("SELECT ?g ?s ?x FROM <urn:g:1> FROM NAMED <urn:g:2> FROM NAMED <urn:g:1> WHERE { ?s ?p ?o OPTIONAL { GRAPH ?g { ?s ?q ?x } } }")),
    ("q_from_empty", query("SELECT ?s FROM <urn:g:5> WHERE { ?s ?p ?o }")),
    ("q_from_default_id", query("SELECT ?s FROM <urn:x-rdflib:default> WHERE { ?s ?p ?o }")),
    ("q_ask_from", query("ASK FROM <urn:g:1> { ?s <http://e/p> ?o }")),
    ("q_construct_from", query("CONSTRUCT { ?s <http://e/r> ?o } FROM <urn:g:1> WHERE { ?s ?p ?o }")),
    ("q_construct_from_named", query("CONSTRUCT { ?g <http://e/r> ?s } FROM NAMED <urn:g:1> FROM NAMED <urn:g:2> WHERE { GRAPH ?g { ?s ?p ?o } }")),
    ("q_describe_from", query("DESCRIBE ?s FROM <urn:g:1> WHERE { ?s ?p ?o }")),
    ("q_select_having_regex", query("SELECT ?s (COUNT(?o) AS ?n) WHERE { ?s ?p ?o FILTER(!isLiteral(?o) || REGEX(STR(?o), '^x?$')) } GROUP BY ?s HAVING (COUNT(?o) > 0)")),
    ("q_select_graph_path", query("SELECT ?g ?s ?o WHERE { GRAPH ?g { ?s <http://e/p>+ ?o } }")),
    ("q_select_list", query("SELECT ?m WHERE { <http://e/a> <http://www.w3.org/1999/02/22-rdf-syntax-ns#rest>*/<http://www.w3.org/1999/02/22-rdf-syntax-ns#first> ?m }")),
    ("q_result_api", lambda g, w: (lambda r: (len(r), bool(r), [sorted((str(k), repr(v)) for k, v in b.items()) for b in r.bindings], len(list(r)), len(list(r))))(g.query("SELECT ?s ?o WHERE { ?s <http://e/p> ?o }"))),
    ("q_result_csv_txt", lambda g, w: (g.query("SELECT ?s ?o WHERE { ?s ?p ?o } ORDER BY ?s ?o").serialize(format="csv"), g.query("SELECT ?s WHERE { ?s ?p ?o } ORDER BY ?s").serialize(format="txt"))),
    ("cmp_orderings", lambda g, w: (g <= _other(g, w), g > _other(g, w), g >= _other(g, w), g.__cmp__(_other(g, w)), g.__cmp__(None), g == g, g is None)),
    ("cmp_isomorphic_views", lambda g, w: w.pairwise(g, lambda a, b: isomorphic(a, b))),
    ("cmp_method_isomorphic_views", lambda g, w: w.pairwise(g, lambda a, b: a.isomorphic(b))),
    ("cmp_graph_diff_views", lambda g, w: w.pairwise(g, lambda a, b: ans(graph_diff(a, b)))),
    ("cmp_similar_views", lambda g, w: w.pairwise(g, lambda a, b: similar(a, b))),
    ("cmp_to_isomorphic_views", lambda g, w: [to_isomorphic(v).internal_hash() for v in w.views(g)]),
    ("cmp_to_canonical_views", lambda g, w: [ans(to_canonical_graph(v)) for v in w.views(g)]),
    ("cmp_graph_diff_aggregate", lambda g, w: graph_diff(ReadOnlyGraphAggregate([_as_graph(g, w)]), _other(g, w))),
    ("cmp_graph_diff_aggregate_both", lambda g, w: graph_diff(ReadOnlyGraphAggregate([_as_graph(g, w)]), ReadOnlyGraphAggregate([_as_graph(g, w)]))),
    ("cmp_graph_diff_aggregate_views", lambda g, w: w.pairwise(g, lambda a, b: ans(graph_diff(ReadOnlyGraphAggregate([a]), ReadOnlyGraphAggregate([b]))))),
    ("cmp_graph_diff_canonical", lambda g, w: graph_diff(to_canonical_graph(_as_graph(g, w)), to_canonical_graph(_other(g, w)))),
    ("cmp_isomorphic_aggregate", lambda g, w: (isomorphic(ReadOnlyGraphAggregate([_as_graph(g, w)]), _other(g, w)),
                                               to_isomorphic(ReadOnlyGraphAggregate([_as_graph(g, w)])).internal_hash(),
                                               similar(ReadOnlyGraphAggregate([_as_graph(g, w)]), _as_graph(g, w)))),
    ("cmp_isomorphic_graph_digest", lambda g, w: (to_isomorphic(_as_graph(g, w)).graph_digest(), to_isomorphic(_as_graph(g, w)).internal_hash(stats={}))),
    ("ser_file_turtle", lambda g, w: w.to_file(g, "turtle")), ("ser_file_xml", lambda g, w: w.to_file(g, "xml")),
    ("ser_file_nt", lambda g, w: w.to_file(g, "nt")), ("ser_file_jsonld", lambda g, w: w.to_file(g, "json-ld")),
    ("ser_file_trig", lambda g, w: w.to_file(g, "trig")), ("ser_file_nquads", lambda g, w: w.to_file(g, "nquads")),
    ("ser_file_hext", lambda g, w: w.to_file(g, "hext")), ("ser_file_default", lambda g, w: w.to_file(g, None)),
    ("ser_each_view_turtle", lambda g, w: [_content(v.serialize(format="turtle"), "turtle") for v in w.views(g)]),
    ("ser_each_view_nt", lambda g, w: [_content(v.serialize(format="nt"), "nt") for v in w.views(g)]),
    ("ser_each_view_xml", lambda g, w: [_content(v.serialize(format="xml"), "xml") for v in w.views(g)]),
    ("ser_each_view_jsonld", lambda g, w: [_content(v.serialize(format="json-ld"), "json-ld") for v in w.views(g)]),
    ("ser_each_view_longturtle_n3", lambda g, w: [(_content(v.serialize(format="longturtle"), "turtle"), _content(v.serialize(format="n3"), "n3")) for v in w.views(g)]),
    ("ser_each_view_hext", lambda g, w: [_content(v.serialize(format="hext"), "hext") for v in w.views(g)]),
    ("aggregate_reads", lambda g, w: (lambda r: (len(r), sorted(map(repr, r.triples((None, None, None)))), (A, P, B) in r,
                                                 sorted(repr((q[0], q[1], q[2])) for q in r.quads((None, None, None))),
                                                 sorted(map(repr, r.triples((A, P * "+", None))))))(ReadOnlyGraphAggregate(w.views(g) or [Graph()]))),
    ("aggregate_query", lambda g, w: ReadOnlyGraphAggregate(w.views(g) or [Graph()]).query("SELECT ?s ?o WHERE { ?s <http://e/p> ?o }")),
    ("copy_copy_deepcopy", lambda g, w: (ans(copy.copy(_as_graph(g, w))), ans(copy.deepcopy(_as_graph(g, w))))),
    ("resource_api", lambda g, w: (lambda r: (
        sorted(repr(x.identifier if hasattr(x, "identifier") else x) for x in r.subjects(P)),
        sorted(repr(x.identifier if hasattr(x, "identifier") else x) for x in r.objects()),
        sorted(repr(x.identifier) for x in r.predicates()),
        sorted(repr(x.identifier if hasattr(x, "identifier") else x) for x in r.transitive_objects(P)),
        sorted(repr(x.identifier if hasattr(x, "identifier") else x) for x in r.transitive_subjects(P)),
        [repr(x.identifier if hasattr(x, "identifier") else x) for x in r.items()],
        r.qname(), repr(r.identifier), str(r), r == g.resource(A), hash(r) == hash(g.resource(A)),
        sorted(repr(x.identifier if hasattr(x, "identifier") else x) for x in r[P]),
        sorted(repr(x.identifier if hasattr(x, "identifier") else x) for x in r[P / Q]),
        r.value(P, default=None) is None, r.graph is g))(g.resource(A))),
    ("resource_bnode_literal_objects", lambda g, w: [sorted(repr(o.identifier if hasattr(o, "identifier") else o) for o in g.resource(s).objects(P)) for s in (B, BNode("b1"), C_)]),
    ("collection_api", lambda g, w: (lambda c: (len(c), [repr(x) for x in c], c.n3(), _try(lambda: repr(c[0])), _try(lambda: repr(c[5])),
                                                _try(lambda: c.index(B)), _try(lambda: c.index(Literal("nope"))), B in list(c)))(Collection(g, A))),
    ("collection_nil_and_missing", lambda g, w: (len(Collection(g, RDF.nil)), list(Collection(g, RDF.nil)), len(Collection(g, C_)), list(Collection(g, BNode("b2"))))),
    ("items_all_heads", lambda g, w: [_try(lambda s=s: [repr(x) for x in g.items(s)]) for s in (A, BNode("b1"), RDF.nil, C_)]),
    ("seq_read", lambda g, w: (lambda q: None if q is None else (len(q), [repr(x) for x in q], _try(lambda: repr(q[0])), _try(lambda: repr(q[7]))))(rdflib.graph.Seq(g, C_))),
    ("seq_missing", lambda g, w: (len(rdflib.graph.Seq(g, A)), list(rdflib.graph.Seq(g, BNode("b2"))))),
    ("value_variants", lambda g, w: (repr(g.value(A, RDF.first)), repr(g.value(predicate=RDF.first, object=B, any=True)), repr(g.value(A, None, B, any=True)),
                                     _try(lambda: repr(g.value(A, P, any=False))), repr(g.value(C_, RDFS.label, default=Literal("d"))))),
    ("predicate_objects_unique", lambda g, w: (sorted(map(repr, g.predicates(unique=True))), sorted(map(repr, g.objects(unique=True))),
                                               sorted(map(repr, g.subject_objects(unique=True))), sorted(map(repr, g.predicate_objects(unique=True))))),
    ("nsm_reads", lambda g, w: (g.namespace_manager.normalizeUri(str(P)), _try(lambda: g.namespace_manager.compute_qname(str(RDF.first), generate=False)),
                                g.namespace_manager.qname_strict(str(RDF.type)) if hasattr(g.namespace_manager, "qname_strict") else None,
                                g.namespace_manager.expand_curie("rdf:type"), Literal("x", lang="en").n3(g.namespace_manager))),
    ("ds_store_reads", lambda g, w: (len(g.store), sorted(repr(c.identifier) for c in g.store.contexts()), sorted(repr(c.identifier) for c in g.store.contexts((A, P, B))),
                                     g.store.context_aware, g.store.graph_aware)),
    ("ds_len_each", lambda g, w: sorted((repr(c.identifier), len(c), bool(c)) for c in g.contexts())),
    ("ds_contains_each", lambda g, w: [((A, P, B, c.identifier) in g, (A, P, B, c) in g, (None, None, None, c) in g) for c in sorted(g.contexts(), key=lambda c: repr(c.identifier))]),
    ("ds_triples_choices_ctx", lambda g, w: (list(g.triples_choices(([A, B], P, None))), list(g.triples_choices((A, [P, Q], None), context=g.get_context(G1))))),
    ("ds_quads_each_shape", lambda g, w: [sorted(repr((q[0], q[1], q[2], getattr(q[3], "identifier", q[3]))) for q in g.quads(pat)) for pat in
                                          ((A, None, None, None), (None, None, B, None), (A, P, B, None), (None, P, None, GRAPH_POOL[2]), (A, P, B, G1))]),
    ("ds_path_ctx", lambda g, w: (list(g.triples((None, P * "+", None), context=g.get_context(G1))), list(g.triples((A, P / Q, None))))),
    ("ds_remove_nothing_free_reads", lambda g, w: (g.get_context(G1) == g.get_context(G1), g.get_context(G1) == g.get_context(GRAPH_POOL[2]), len(g.get_context(URIRef("urn:nowhere"))))),
    ("ds_foreign_triples_choices", lambda g, w: list(g.triples_choices(([A, C_], Q, None), context=_foreign(g, w)))),
    ("ds_foreign_triples_path", lambda g, w: list(g.triples((None, Q * "*", None), context=_foreign(g, w)))),
    # --- GRAPH <iri> naming no graph of the dataset (must not leave an empty graph behind), bound ?g, nested
    ("q_graph_unknown_select", query("SELECT ?s WHERE { GRAPH <urn:nowhere> { ?s ?p ?o } }")),
    ("q_graph_unknown_ask", query("ASK { GRAPH <urn:nowhere:2> { ?s ?p ?o } }")),
    ("q_graph_unknown_optional", query("SELECT ?s ?x WHERE { ?s ?p ?o OPTIONAL { GRAPH <urn:nowhere:3> { ?s ?q ?x } } }")),
    ("q_graph_unknown_union", query("SELECT ?s WHERE { { GRAPH <urn:g:5> { ?s ?p ?o } } UNION { GRAPH <urn:g:2> { ?s ?p ?o } } UNION { ?s ?p ?o } }")),
    ("q_graph_unknown_construct", query("CONSTRUCT { ?s <http://e/r> ?o } WHERE { GRAPH <urn:nowhere:4> { ?s ?p ?o } }")),
    ("q_graph_bound_var", query("SELECT ?g ?s WHERE { VALUES ?g { <urn:nowhere:5> <urn:g:1> <urn:g:2> } GRAPH ?g { ?s ?p ?o } }")),
    ("q_graph_exists", query("SELECT ?s WHERE { ?s ?p ?o FILTER EXISTS { GRAPH <urn:nowhere:6> { ?s ?q ?z } } }")),
    # --- dataset clauses that DEREFERENCE a document (file:// under build/), SPARQL_LOAD_GRAPHS at its default
    ("q_from_file_select", query("SELECT ?s ?p ?o FROM <%s> WHERE { ?s ?p ?o }" % F_TTL)),
    ("q_from_file_nt_select", query("SELECT ?s ?o FROM <%s> WHERE { ?s <http://e/p> ?o }" % F_NT)),
    ("q_from_file_ask", query("ASK FROM <%s> { <http://e/a> <http://e/q> <http://e/c> }" % F_TTL)),
    ("q_from_file_construct", query("CONSTRUCT { ?o <http://e/r> ?s } FROM <%s> WHERE { ?s <http://e/q> ?o }" % F_TTL)),
    ("q_from_file_describe", query("DESCRIBE <http://e/c> FROM <%s>" % F_NT)),
    ("q_from_two_files", query("SELECT ?s ?o FROM <%s> FROM <%s> WHERE { ?s <http://e/p> ?o }" % (F_TTL, F_NT))),
    ("q_from_file_and_named_file", query("SELECT ?g ?s ?x FROM <%s> FROM NAMED <%s> WHERE { ?s <http://e/q> ?o OPTIONAL { GRAPH ?g { ?o ?q ?x } } }" % (F_TTL, F_NT))),
    ("q_from_named_file_only", query("SELECT ?g ?s WHERE { GRAPH ?g { ?s ?p ?o } }".replace("WHERE", "FROM NAMED <%s> WHERE" % F_NT))),
    ("q_from_file_and_known_graph", query("SELECT ?s ?o FROM <urn:g:1> FROM <%s> WHERE { ?s ?p ?o }" % F_NT)),
    ("q_from_known_named_file", query("SELECT ?g ?o FROM <urn:g:1> FROM NAMED <%s> WHERE { GRAPH ?g { <http://e/c> ?p ?o } }" % F_NT)),
    # --- RDF Patch in diff mode against a TARGET dataset whose set of graphs differs (both datasets are watched)
    ("ser_patch_target_persistent", lambda g, w: g.serialize(format="patch", target=w.target)),
    ("ser_patch_target_reverse", lambda g, w: w.target.serialize(format="patch", target=g) if isinstance(g, ConjunctiveGraph) else g.serialize(format="patch", target=w.target)),
    ("ser_patch_target_self", lambda g, w: g.serialize(format="patch", target=g)),
    ("ser_patch_target_empty", lambda g, w: g.serialize(format="patch", target=Dataset())),
    # --- reads that are handed a Graph object backed by ANOTHER store (F19, repaired: they no longer copy it in)
    ("ds_triples_foreign_ctx", lambda g, w: list(g.triples((None, None, None), context=_foreign(g, w)))),
    ("ds_in_foreign_quad", lambda g, w: (C_, Q, C_, _foreign(g, w)) in g),
    ("ds_quads_foreign", lambda g, w: list(g.quads((None, None, None, _foreign(g, w))))),
]
READ_ID = {name: i for i, (name, _) in enumerate(READS)}
FOREIGN_READS = {"ds_triples_foreign_ctx": "OTriples", "ds_in_foreign_quad": "OContains", "ds_quads_foreign": "OQuads"}
DS_ONLY = {n for n, _ in READS if n.startswith("ds_")}
# reads that only make sense on a dataset (on a plain Graph view they raise at once): the generator aims them at the
# front end; the sweep still applies them to views too, and raised reads are counted in the evidence
DS_PREFERRED = {n for n, _ in READS if (n.startswith("q_") and ("graph" in n or "from_named" in n or "from_and_named" in n))
                or n in ("ser_nquads", "ser_trix", "ser_file_nquads", "ser_patch_add", "ser_patch_remove", "ser_patch_target",
                         "ser_patch_target_persistent", "ser_patch_target_reverse", "ser_patch_target_self", "ser_patch_target_empty")}
SKIP_RAND = True  # RAND()/NOW()/UUID()/BNODE() queries are outside the property's repeatability clause


# ------------------------------------------------------------------ the recording proxy store
# codes as in coq/Purity/Model.v (M_TRIPLES ...): 1-8 read methods, 20/21 the two justified benign writes, 30+ writes
CALL_CODE = {"triples": 1, "triples_choices": 2, "contexts": 3, "__len__": 4, "namespaces": 5, "namespace": 6, "prefix": 7,
             "query": 8, "bind": 20, "add_graph(default)": 21,
             "add": 30, "addN": 31, "remove": 32, "add_graph": 33, "remove_graph": 34, "commit": 35, "rollback": 36,
             "open": 37, "close": 38, "destroy": 39, "update": 40, "gc": 41, "create": 42, "__setattr__": 43}
OTHER_CODE = 44


class RecordingStore(Store):
    """A Store that delegates everything to a real Memory store and writes down the name of every method the layers above
    call on it (no hook in /repo: Graph/Dataset/serialisers/the SPARQL engine only ever see this object)."""

    def __init__(self, inner, default_id):
        Store.__init__(self)
        d = self.__dict__
        d["_inner"], d["_log"], d["_default_key"] = inner, [], tkey(default_id)
        d["context_aware"], d["formula_aware"] = inner.context_aware, inner.formula_aware
        d["graph_aware"], d["transaction_aware"] = inner.graph_aware, inner.transaction_aware
        d["_armed"] = True

    def _rec(self, name):
        self.__dict__["_log"].append(name)

    def __setattr__(self, name, value):
        if self.__dict__.get("_armed"):
            self._rec("__setattr__")
        object.__setattr__(self, name, value)

    def __getattr__(self, name):  # anything not spelled out below
        if name.startswith("__") or "_inner" not in self.__dict__:
            raise AttributeError(name)
        self._rec("other:" + name)
        return getattr(self.__dict__["_inner"], name)

    # reads
    def triples(self, triple_pattern, context=None):
        self._rec("triples")
        return self._inner.triples(triple_pattern, context)

    def triples_choices(self, triple, context=None):
        self._rec("triples_choices")
        return self._inner.triples_choices(triple, context)

    def contexts(self, triple=None):
        self._rec("contexts")
        return self._inner.contexts(triple)

    def __len__(self, context=None):
        self._rec("__len__")
        return self._inner.__len__(context)

    def namespaces(self):
        self._rec("namespaces")
        return self._inner.namespaces()

    def namespace(self, prefix):
        self._rec("namespace")
        return self._inner.namespace(prefix)

    def prefix(self, namespace):
        self._rec("prefix")
        return self._inner.prefix(namespace)

    def query(self, *a, **kw):
        self._rec("query")
        return self._inner.query(*a, **kw)

    # the prefix table
    def bind(self, prefix, namespace, override=True):
        self._rec("bind")
        return self._inner.bind(prefix, namespace, override)

    # writes
    def add_graph(self, graph):
        self._rec("add_graph(default)" if tkey(graph.identifier) == self._default_key else "add_graph")
        return self._inner.add_graph(graph)

    def add(self, triple, context, quoted=False):
        self._rec("add")
        return self._inner.add(triple, context, quoted)

    def addN(self, quads):  # noqa: N802
        self._rec("addN")
        return self._inner.addN(quads)

    def remove(self, triple, context=None):
        self._rec("remove")
        return self._inner.remove(triple, context)

    def remove_graph(self, graph):
        self._rec("remove_graph")
        return self._inner.remove_graph(graph)

    def update(self, *a, **kw):
        self._rec("update")
        return self._inner.update(*a, **kw)

    def commit(self):
        self._rec("commit")
        return self._inner.commit()

    def rollback(self):
        self._rec("rollback")
        return self._inner.rollback()

    def open(self, configuration, create=False):
        self._rec("open")
        return self._inner.open(configuration, create)

    def close(self, commit_pending_transaction=False):
        self._rec("close")
        return self._inner.close(commit_pending_transaction)

    def destroy(self, configuration):
        self._rec("destroy")
        return self._inner.destroy(configuration)

    def gc(self):
        self._rec("gc")
        return self._inner.gc()

    def create(self, configuration):
        self._rec("create")
        return self._inner.create(configuration)


def call_codes(log):
    """distinct (code, method name) pairs of a log, sorted"""
    return sorted({(CALL_CODE.get(n, OTHER_CODE), n) for n in log})


class PWorld(World):
    def __init__(self, is_ds, du):
        default_id = rdflib.graph.DATASET_DEFAULT_GRAPH_ID if is_ds else c02.CG_DEFAULT
        self.inner = Memory()
        super().__init__(is_ds, [], default_union=du, store=RecordingStore(self.inner, default_id))
        self.du = du
        # a second dataset, with a different set of graphs (IRI-named, bnode-named, an empty known one): reads that take
        # another dataset (patch target=) must leave it alone too
        self.target = Dataset()
        self.target.add((A, P, B, GRAPH_POOL[1]))
        self.target.add((C_, Q, Literal("x"), GRAPH_POOL[3]))
        self.target.add((A, Q, Literal("t")))
        self.target.graph(GRAPH_POOL[4])
        self.target.graph(URIRef("urn:only-in-target"))

    def others(self):
        """state of everything else a read may be handed: the target dataset (quads and graph names, off its store)"""
        st = self.target.store
        quads = sorted(repr((s, p, o, sorted(repr(c.identifier) for c in cs))) for (s, p, o), cs in st.triples((None, None, None), None))
        return (quads, sorted(repr(c.identifier) for c in st.contexts() if c.identifier != rdflib.graph.DATASET_DEFAULT_GRAPH_ID))

    def other_ds(self):
        o = Dataset()
        o.add((A, P, B, G1))
        o.add((A, Q, Literal("x")))
        return o

    def views(self, g):
        """the graphs to look at one by one: every context of a front end, or the graph itself"""
        if isinstance(g, ConjunctiveGraph):
            return sorted(g.contexts(), key=lambda c: repr(c.identifier))
        return [g]

    def pairwise(self, g, f):
        vs = self.views(g) + [_other(g, self)]
        return [f(a, b) for a in vs for b in vs]

    def to_file(self, g, fmt):
        d = tempfile.mkdtemp(dir=BUILD)
        try:
            path = os.path.join(d, "out")
            r = g.serialize(destination=path, format=fmt) if fmt else g.serialize(destination=path)
            with open(path, "rb") as f:
                return (r is g, f.read().decode("utf-8", "replace"))
        finally:
            shutil.rmtree(d, ignore_errors=True)

    def union_read(self, g):
        old = g.default_union
        try:
            g.default_union = not old
            a = sorted(map(repr, g.triples((None, None, None))))
        finally:
            g.default_union = old
        return (a, sorted(map(repr, g.triples((None, None, None)))))

    def snap(self):
        """quads and graph names, read straight off the store (no front-end method that might write)"""
        quads = []
        for (s, p, o), ctxs in self.inner.triples((None, None, None), None):
            cs = list(ctxs)
            if not cs:
                quads.append([xterm_id(s), xterm_id(p), xterm_id(o), 996])  # in the union only: no graph
            for c in cs:
                quads.append([xterm_id(s), xterm_id(p), xterm_id(o), self.gid(c)])
        names = sorted(self.gid(c) for c in self.inner.contexts())
        return [sorted(quads), names]


def run_read(w, g, name):
    fn = READS[READ_ID[name]][1]
    try:
        return ("ok", ans(fn(g, w)))
    except Exception as e:  # noqa: BLE001
        return ("exc", type(e).__name__)


class C13(Suite):
    name = "purity"
    imports = "From RV Require Import Purity.Model."
    case_ty = "pcase"
    obs_ty = "pobs"
    corr = ("every read-only entry point of Graph / ConjunctiveGraph / Dataset, the serialiser plugins, the SPARQL engine, "
            "rdflib.compare and rdflib.paths; modelled in Coq: ConjunctiveGraph._graph/triples/quads/__contains__, "
            "Dataset.graphs, contexts, get_context, __len__")
    quick_n = 260
    thorough_n = 6000
    timeout_s = 60.0

    # case = {"ds": bool, "du": bool, "build": [C02 write ops], "reads": [[read name, target]]}; target "ds" or a graph number
    def gen(self, rng, i):
        is_ds = rng.random() < 0.8
        du = rng.random() < 0.5
        subs = rng.sample(SUBJ, rng.choice([2, 3]))
        objs = rng.sample(OBJ, rng.choice([2, 3]))
        pool = [[s, p, o] for s in subs for p in PRED for o in objs]
        rng.shuffle(pool)
        vocab = pool[: rng.choice([1, 2, 3, 4, 6])]
        if rng.random() < 0.3:  # a cycle and a chain for the path reads
            vocab += [[1, 3, 2], [2, 3, 1], [2, 4, 12]]
        used = list(dict.fromkeys(rng.sample([0, 1, 2, 3, 4, 5], rng.choice([1, 2, 3, 4])) + ([1] if rng.random() < 0.6 else [])))
        build = []
        for t in vocab:
            for c in used:
                if rng.random() < 0.45:
                    ca = ["q", ["id", c]]
                    if c == 0 and rng.random() < 0.6:
                        ca = "t" if rng.random() < 0.7 else ["q", None]
                    build.append(["add", t, ca])
        if is_ds:
            for c in [1, 2, 3, 4, 5]:
                if rng.random() < 0.2:
                    build.append(["graph", ["id", c]])  # possibly an empty known graph
            if rng.random() < 0.15:
                build.append(["rmgraph", ["id", rng.choice(used)]])
        if rng.random() < 0.25:  # an RDF list headed by <a>, for items() / Collection reads
            c = rng.choice(used)
            build += [["add", t, ["q", ["id", c]]] for t in LIST_TRIPLES]
        if rng.random() < 0.2:   # an rdf:Seq, for Graph.seq reads
            c = rng.choice(used)
            build += [["add", t, ["q", ["id", c]]] for t in SEQ_TRIPLES]
        if rng.random() < 0.15 and build:
            build.append(["rem", [None, None, None], ["q", ["id", rng.choice(used)]]])  # emptied but still known
        rng.shuffle(build)
        reads = []
        names = [n for n, _ in READS]
        for _ in range(rng.choice([8, 10, 12, 16])):
            n = rng.choice(names)
            if n in DS_ONLY or n in DS_PREFERRED or rng.random() < 0.55:
                tgt = "ds"
            else:
                tgt = rng.choice([0, 1, 2, 3, 4, 5])
            reads.append([n, tgt])
        return {"ds": is_ds, "du": du, "build": build, "reads": reads}

    def run_impl(self, case):
        rdflib.plugins.sparql.SPARQL_LOAD_GRAPHS = True  # the library's default: FROM <doc> dereferences (file:// only here)
        write_docs()
        w = PWorld(case["ds"], case["du"])
        for op in case["build"]:
            if op[0] == "add":
                w.d.add(w.toq(tuple(xterm(x) for x in op[1]), op[2]))
            else:
                c02.do_op(w, op)
        w.d.default_union = case["du"]
        obs = [w.snap(), []]
        for name, tgt in case["reads"]:
            g = w.d if tgt == "ds" else Graph(w.store, identifier=w.name(tgt))
            o0 = w.others()
            del w.store._log[:]
            a1 = run_read(w, g, name)
            mid = w.snap()
            a2 = run_read(w, g, name)
            after = w.snap()
            # the second call must not write either, and neither call may touch the OTHER dataset it was handed
            # (patch target=): both are folded into the flag
            calls = call_codes(w.store._log)  # before the snapshot below (which reads the inner store anyway)
            status = "ok" if a1[0] == "ok" and a2[0] == "ok" else "raised:" + str((a1 if a1[0] == "exc" else a2)[1])
            obs[1].append([mid, bool(same_answer(a1, a2) and after == mid and w.others() == o0), [list(c) for c in calls], status])
        return obs

    def on_timeout(self, case):
        return [[[], []], []]

    def coq_case(self, case):
        du = cbool(case["du"])
        f = "(GForeign 1%N [(12%N, 4%N, 12%N)])"
        pall = "(None, None, None)"
        modelled = {
            "ds_triples_foreign_ctx": f"RdTriples {pall} CTriple (Some {f}) {du}",
            "ds_in_foreign_quad": f"RdContains (Some 12%N, Some 4%N, Some 12%N) (CQuad (Some {f})) {du}",
            "ds_quads_foreign": f"RdQuads {pall} (CQuad (Some {f}))",
            "ds_triples_ctx": f"RdTriples {pall} CTriple (Some (GView 1%N)) {du}",
            "ds_triples_quad": f"RdTriples {pall} (CQuad (Some (GId 1%N))) None {du}",
            "ds_quads_in_graph": f"RdQuads {pall} (CQuad (Some (GId 1%N)))",
            "ds_quads_all": f"RdQuads {pall} CTriple",
            "ds_graphs": "RdGraphs", "ds_contexts": "RdGraphs",
        }
        reads = []
        for name, tgt in case["reads"]:
            if name in modelled and tgt == "ds":
                reads.append(modelled[name])
            else:
                reads.append(f"RdOpaque {cN(READ_ID[name])}")
        return ("{| p_ds := " + cbool(case["ds"]) + "; p_build := " + clist(c_op(o) for o in case["build"])
                + "; p_reads := " + clist(reads) + " |}")

    def coq_obs(self, obs):
        def snap(s):
            return ctuple(clist(c_quad(q) for q in s[0]), clist(cN(x) for x in s[1])) if s else "([], [])"
        return ctuple(snap(obs[0]), clist("{| e_snap := " + snap(e[0]) + "; e_same := " + cbool(e[1]) + "; e_calls := "
                                            + clist(cN(c) for c, _ in e[2]) + " |}" for e in obs[1]))

    def nontrivial(self, case, obs):
        return len(obs[0][0]) >= 1 and len(case["reads"]) >= 1

    def features(self, case, obs):
        f = {"front_" + ("dataset" if case["ds"] else "conjunctive"): 1, "default_union": int(case["du"]),
             "reads_total": len(case["reads"]), "quads_in_state": len(obs[0][0]) if obs and obs[0] else 0}
        if obs and obs[0]:
            nonempty = {q[3] for q in obs[0][0]}
            f["state_has_bnode_named_graph"] = int(bool(nonempty & {3, 4}))
            f["state_has_empty_known_graph"] = int(any(n not in nonempty for n in obs[0][1]))
        for e in (obs[1] if obs and len(obs) > 1 else []):
            for code, nm in e[2]:
                f["store_call_" + nm] = f.get("store_call_" + nm, 0) + 1
            if len(e) > 3 and e[3] != "ok":
                f["reads_raised"] = f.get("reads_raised", 0) + 1
                f["reads_" + e[3]] = f.get("reads_" + e[3], 0) + 1
            else:
                f["reads_answered"] = f.get("reads_answered", 0) + 1
        if UNDECIDED[0]:
            f["answers_undecided_total_so_far"] = UNDECIDED[0]
        for name, tgt in case["reads"]:
            fam = name.split("_")[0]
            f["read_" + fam] = f.get("read_" + fam, 0) + 1
            f["target_" + ("front_end" if tgt == "ds" else "graph_view")] = f.get("target_" + ("front_end" if tgt == "ds" else "graph_view"), 0) + 1
        return f

    def shrink(self, case):
        for i in range(len(case["reads"])):
            yield dict(case, reads=case["reads"][:i] + case["reads"][i + 1:])
        for i in range(len(case["build"])):
            yield dict(case, build=case["build"][:i] + case["build"][i + 1:])

    def sweep(self):
        """every read of the catalogue on the front end and on four graph views of three fixed states x default_union"""
        states = [
            [["add", [1, 3, 2], "t"], ["add", [1, 3, 2], ["q", ["id", 1]]], ["add", [8, 4, 5], ["q", ["id", 3]]],
             ["add", [2, 3, 1], ["q", ["id", 1]]], ["add", [2, 4, 13], ["q", ["id", 4]]], ["graph", ["id", 2]]],
            [["add", [13, 3, 8], ["q", ["id", 3]]], ["add", [1, 4, 7], ["q", ["id", 3]]]],
            [["graph", ["id", 1]]],
            [["add", t, ["q", ["id", 1]]] for t in LIST_TRIPLES] + [["add", t, ["q", ["id", 3]]] for t in SEQ_TRIPLES]
            + [["add", [1, 3, 2], "t"], ["add", [2, 3, 1], ["q", ["id", 1]]]],
        ]
        for is_ds in (True, False):
            for du in (False, True):
                for build in states:
                    if not is_ds:
                        build = [o for o in build if o[0] != "graph"]
                    for name, _ in READS:
                        tgts = ["ds"] if name in DS_ONLY else ["ds", 0, 1, 3, 5]
                        yield {"ds": is_ds, "du": du, "build": build, "reads": [[name, t] for t in tgts]}


SUITES = [C13()]

TRUSTED = [
    "Coq 8.16.1 kernel and standard library",
    "harness/c13.py: the catalogue of read-only calls, the comparison of two answers (rows and text lines as multisets up to a "
    "blank-node bijection found by backtracking, graphs by rdflib.compare's internal_hash) and the snapshot read straight off "
    "the inner Memory store (triples(), contexts())",
    "harness/c13.py RecordingStore: a rdflib.store.Store subclass created by the harness that delegates every method to a real "
    "Memory store and records its name; Graph/Dataset/serialisers/the SPARQL engine only ever hold this object, so every store "
    "method a read calls is in the observation (no hook in /repo)",
    "that the store methods recorded as reads (triples, triples_choices, contexts, __len__, namespaces, namespace, prefix, query) "
    "behave as the operations of the read-program language of coq/Purity/Model.v (Memory's side is property C01's/C02's tie) AND "
    "that a read which calls only those methods is such a program: neither is proved; the C13_interface theorems are facts about "
    "the interface and reach a concrete read only through this recording",
    "the per-read flag (second answer equals the first, second call changed nothing, no other dataset changed) is computed by "
    "the harness in Python (same_answer / seq_equiv / rows_equiv), not in Coq",
    "a write that bypasses the store API (poking Memory's private dictionaries) is not recorded; the before/after snapshots are for that",
]
ASSUMPTIONS = [
    "store is rdflib.plugins.stores.memory.Memory behind the recording proxy; SPARQL_LOAD_GRAPHS is at its default (on): FROM / "
    "FROM NAMED dereference file:// documents written by the harness under build/c13_docs; the urn: names of the pool cannot be fetched",
    "queries using RAND/NOW/UUID/BNODE() are not issued (outside the repeatability clause)",
    "one store call issued by reads is accepted beyond the read methods, justified in notes/C13.md: bind (the prefix table: the "
    "property speaks of triples, quads and the set of graphs); every other non-read call - add_graph of the default graph "
    "included - is a specification failure",
    "answers are compared exactly where an order is defined (serialised text line by line, ORDER BY results row by row; blank-node "
    "labels renamed by one consistent bijection) and as multisets where SPARQL or Python defines none (solution multisets, "
    "iteration over a set); graphs (CONSTRUCT/DESCRIBE results, returned Graph objects) up to isomorphism via rdflib.compare - the "
    "library under test - which is why its own functions are also in the catalogue",
]
RULE = ("a dataset (Dataset 80% / ConjunctiveGraph 20%, default_union on/off) built from 1-9 valid triples over 1-4 graph "
        "names (IRI- and bnode-named, empty known graphs, emptied graphs, optionally an RDF list and an rdf:Seq), then 8-16 reads "
        f"drawn from a catalogue of {len(READS)} read-only calls, each applied to the front end or to a Graph(store, name) view, "
        "each called twice behind a store proxy that records every store method called; "
        "distinct by full case content; non-trivial = the state holds at least one quad")
