"""C17 - prefix bindings: correspondence between coq/Namespace/Model.v and
rdflib/namespace/__init__.py (NamespaceManager, split_uri, is_ncname, the namespace trie) +
rdflib/plugins/stores/memory.py (Memory / SimpleMemory bind, prefix, namespace, namespaces),
and a conformance suite (default bindings, parse, serialize) checked by the same
verified per-step checker."""
from __future__ import annotations

import unicodedata
import warnings

from .core import Suite, cN, cbool, clist, copt, cstr, ctuple, import_rdflib

rdflib = import_rdflib()
import logging  # noqa: E402

warnings.filterwarnings("ignore", category=DeprecationWarning)
logging.getLogger("rdflib.term").setLevel(logging.ERROR)
from rdflib import ConjunctiveGraph, Dataset, Graph, Literal, URIRef  # noqa: E402
from rdflib.namespace import NamespaceManager  # noqa: E402
from rdflib.plugins.stores.memory import Memory, SimpleMemory  # noqa: E402

XMLNS = "http://www.w3.org/XML/1998/namespace"

# ------------------------------------------------------------------ vocabulary
# namespaces: nested, overlapping, ending in '#', '/' or neither (short, so that
# the generated Coq literals stay small)
NAMESPACES = ["h:e/", "h:e/a", "h:e/a#", "h:e/a/", "h:e/a/b/", "h:e/ab", "h:e/a/b", "u:x:", "u:x:y:", "h:e#"]
RARE_NAMESPACES = ["", XMLNS, "h:e/a/b/c#", "h:\u00e9/", "h:e/a_"]
LOCALS = ["x", "b", "b/c", "1", "_u", "y#z", "", "x-y.z", "b/", "c#", "ab", "1x"]
RARE_LOCALS = ["\u00e9", "\u0663x", "a\u00b7b", "e\u0301", "\u20ac", "x y", "(p)", "%41", "-x", ".x", "x\u0387"]
PREFIXES = ["a", "b", "", None, "_g", "ns1", "ns2", "default1", "a1", "c"]
RARE_PREFIXES = ["a b", "x:y", "_", "ns3", "default2", "a2", "ns"]


def cat_class(ch: str) -> int:
    c = unicodedata.category(ch)
    if c in ("Ll", "Lu", "Lo", "Lt", "Nl"):
        return 1
    if c == "Nd":
        return 2
    if c in ("Mc", "Me", "Mn", "Lm"):
        return 3
    return 0


def case_strings(case):
    for op in case["ops"]:
        for x in op[1:]:
            if isinstance(x, str):
                yield x
            elif isinstance(x, list):
                for y in x:
                    if isinstance(y, str):
                        yield y
                    elif isinstance(y, list):
                        for z in y:
                            if isinstance(z, str):
                                yield z


def cat_table(case):
    chars = sorted({ch for s in case_strings(case) for ch in s})
    return [(ord(ch), cat_class(ch)) for ch in chars if cat_class(ch) != 0]


# ------------------------------------------------------------------ Coq text
def c_qn(q):
    return ctuple(cstr(q[0]), cstr(q[1]), cstr(q[2]))


def c_pairs(l):
    return clist(ctuple(cstr(a), cstr(b)) for a, b in l)


def c_res(r):
    k = r[0]
    if k == "unit":
        return "RUnit"
    if k == "exn":
        return "(RExn EKey)" if r[1] == "KeyError" else "(RExn EValue)" if r[1] == "ValueError" else f"(RS {cstr('!!' + r[1])})"
    if k == "q":
        return f"(RQ {cstr(r[1])} {c_qn(r[2])} {copt(r[3], cstr)})"
    if k == "t":
        return f"(RT {c_qn(r[1])})"
    if k == "s":
        return f"(RS {cstr(r[1])})"
    raise ValueError(k)


def c_snap(s):
    return ("{| s_res := " + c_res(s["res"]) + "; s_list := " + c_pairs(s["list"]) + "; s_rev := " + c_pairs(s["rev"])
            + "; s_api := " + cbool(s["api"]) + " |}")


def c_op(op):
    k = op[0]
    if k == "bind":
        return f"OBind {copt(op[1], cstr)} {cstr(op[2])} {cbool(op[3])} {cbool(op[4])}"
    if k == "qname":
        return f"OQname {cstr(op[1])}"
    if k == "curie":
        return f"OCurie {cstr(op[1])} {cbool(op[2])}"
    if k == "compute":
        return f"OCompute {cstr(op[1])} {cbool(op[2])}"
    if k == "strict":
        return f"OStrict {cstr(op[1])} {cbool(op[2])}"
    if k == "norm":
        return f"ONorm {cstr(op[1])}"
    if k == "expand":
        return f"OExpand {cstr(op[1])}"
    if k == "reset":
        return "OReset"
    if k in ("parse1", "parseN"):
        return "OParse " + clist(ctuple(cstr(p_), cstr(n_)) for p_, n_ in parse_decls(op))
    raise ValueError(k)


def parse_decls(op):
    """the prefix directives of the document, in document order"""
    return [[op[1], op[2]]] if op[0] == "parse1" else [list(d) for d in op[1]]


def turtle_doc(op, i=0):
    """a Turtle document with these directives (alternating @prefix / PREFIX) and one triple"""
    lines = []
    for j, (p_, n_) in enumerate(parse_decls(op)):
        lines.append("@prefix %s: <%s> ." % (p_, n_) if (i + j) % 2 == 0 else "PREFIX %s: <%s>" % (p_, n_))
    return "\n".join(lines) + "\n<h:s> <h:p> <h:o> .\n"


def gen_decls(rng, pfx, nss):
    """1-3 directives: re-declaration of a prefix, two prefixes for one namespace, the empty prefix"""
    ps = [p for p in pfx if p is not None] or ["a"]
    n = rng.choice([1, 2, 2, 3])
    decls = [[rng.choice(ps), rng.choice(nss)] for _ in range(n)]
    if n > 1 and rng.random() < 0.3:
        decls[-1][0] = decls[0][0]  # the prefix declared again
    if n > 1 and rng.random() < 0.3:
        decls[-1][1] = decls[0][1]  # a second prefix for the same namespace
    return decls


# ------------------------------------------------------------------ observing rdflib
def store_dicts(store):
    cls = type(store).__name__
    return getattr(store, f"_{cls}__namespace"), getattr(store, f"_{cls}__prefix")


def snapshot(g, res, names=(), views=()):
    """list(namespaces()), the namespace->prefix dictionary, and whether the public
    lookups store.namespace / store.prefix / Graph.namespaces (through g and through every
    other graph object in views) agree with them"""
    store = g.namespace_manager.store  # a graph may have been handed a manager over another graph's store
    lst = [(p, str(n)) for p, n in store.namespaces()]
    p2n, n2p = store_dicts(store)
    rev = [(str(n), p) for n, p in n2p.items()]
    api = [(p, str(n)) for p, n in g.namespaces()] == lst
    for v in views:
        api = api and v.store is store and [(p, str(n)) for p, n in v.namespaces()] == lst
        api = api and [(p, str(n)) for p, n in v.namespace_manager.namespaces()] == lst
    api = api and [(p, str(n)) for p, n in p2n.items()] == lst
    for p, n in lst:
        api = api and store.namespace(p) is not None and str(store.namespace(p)) == n
    for n, p in rev:
        api = api and store.prefix(URIRef(n)) == p
    for x in names:
        if x is None:
            continue
        a = store.namespace(x)
        api = api and (None if a is None else str(a)) == dict(lst).get(x)
        api = api and store.prefix(URIRef(x)) == dict(rev).get(x)
    return {"res": res, "list": lst, "rev": rev, "api": bool(api)}


def q_tuple(t):
    return [str(t[0]), str(t[1]), str(t[2])]


def rendered(nm, u, s):
    """the observation for a call that returned the string s for IRI u: the cached
    (prefix, namespace, name) behind it (a cache hit, hence no side effect) and
    expand_curie(s)"""
    q = nm.compute_qname(URIRef(u), generate=False)
    try:
        e = str(nm.expand_curie(s))
    except (ValueError, KeyError):
        e = None
    return ["q", s, q_tuple(q), e]


def do_op(g, op):
    nm = g.namespace_manager
    k = op[0]
    try:
        if k == "bind":
            (g if op[5] else nm).bind(op[1], op[2], override=op[3], replace=op[4])
            return ["unit"]
        if k == "qname":
            s = (g.qname if op[2] else nm.qname)(URIRef(op[1]))
            return rendered(nm, op[1], s)
        if k == "curie":
            s = nm.curie(URIRef(op[1]), generate=op[2])
            return rendered(nm, op[1], s)
        if k == "compute":
            return ["t", q_tuple(nm.compute_qname(URIRef(op[1]), generate=op[2]))]
        if k == "strict":
            return ["t", q_tuple(nm.compute_qname_strict(URIRef(op[1]), generate=op[2]))]
        if k == "norm":
            u = URIRef(op[1])
            # URIRef.n3 refuses invalid IRIs itself, before it delegates to normalizeUri
            s = u.n3(nm) if op[2] and rdflib.term._is_valid_uri(u) else nm.normalizeUri(u)
            if s == "<%s>" % op[1]:
                return ["s", s]
            return rendered(nm, op[1], s)
        if k == "expand":
            return ["s", str(nm.expand_curie(op[1]))]
        if k == "reset":
            nm.reset()
            return ["unit"]
    except (KeyError, ValueError) as e:
        return ["exn", type(e).__name__]
    except Exception as e:  # noqa: BLE001
        return ["exn", type(e).__name__]
    raise ValueError(k)


def pack_obs(obs):
    """observation as a string table + snapshots that refer to it by index"""
    tab, idx = [], {}

    def ix(x):
        if x not in idx:
            idx[x] = len(tab)
            tab.append(x)
        return cN(idx[x])

    def ires(r):
        k = r[0]
        if k == "unit":
            return "IUnit"
        if k == "exn":
            return "(IExn EKey)" if r[1] == "KeyError" else "(IExn EValue)" if r[1] == "ValueError" else f"(IS {ix('!!' + r[1])})"
        if k == "q":
            return f"(IQ {ix(r[1])} {ix(r[2][0])} {ix(r[2][1])} {ix(r[2][2])} {copt(r[3], ix)})"
        if k == "t":
            return f"(IT {ix(r[1][0])} {ix(r[1][1])} {ix(r[1][2])})"
        return f"(IS {ix(r[1])})"

    snaps = []
    prev = ([], [])
    for s in obs:
        cur = (s["list"], s["rev"])
        if cur == prev:
            lists = "None"
        else:
            lists = ("(Some (" + clist(ctuple(ix(a), ix(b)) for a, b in s["list"]) + ", "
                     + clist(ctuple(ix(a), ix(b)) for a, b in s["rev"]) + "))")
        prev = cur
        snaps.append("{| j_res := " + ires(s["res"]) + "; j_lists := " + lists + "; j_api := " + cbool(s["api"]) + " |}")
    body = clist(snaps)  # fills the table
    return clist(cstr(x) for x in tab), body


class C17(Suite):
    name = "nsmanager"
    imports = "From RV Require Import Namespace.Model."
    case_ty = "case"
    obs_ty = "dobs"
    model = "d_model"
    oeq = "d_eqb"
    spec = "d_spec"
    corr = ("NamespaceManager.bind/_store_bind/compute_qname/compute_qname_strict/qname/curie/normalizeUri/"
            "expand_curie/reset, split_uri, is_ncname, insert_trie/insert_strie/get_longest_namespace, "
            "Memory.bind/prefix/namespace/namespaces (and SimpleMemory)")
    quick_n = 800
    thorough_n = 20000

    # case = {"store": "memory"|"simple", "ops": [op...]}
    # op = ["bind", prefix|None, ns, override, replace, via_graph] | ["qname", iri, via_graph] | ["curie", iri, gen]
    #    | ["compute", iri, gen] | ["strict", iri, gen] | ["norm", iri, via_n3] | ["expand", curie] | ["reset"]

    def gen(self, rng, i):
        rare = rng.random() < 0.25
        nss = rng.sample(NAMESPACES, rng.choice([2, 3, 3, 4]))
        if rare and rng.random() < 0.6:
            nss.append(rng.choice(RARE_NAMESPACES))
        # overlapping namespaces on purpose: often add an extension of one already chosen
        if rng.random() < 0.5:
            base = rng.choice(nss)
            ext = [n for n in NAMESPACES if n.startswith(base) and n != base]
            if ext:
                nss.append(rng.choice(ext))
        pfx = rng.sample(PREFIXES, rng.choice([2, 3, 4]))
        if rare and rng.random() < 0.5:
            pfx.append(rng.choice(RARE_PREFIXES))
        locs = rng.sample(LOCALS, rng.choice([2, 3]))
        if rare and rng.random() < 0.6:
            locs.append(rng.choice(RARE_LOCALS))
        iris = []
        for _ in range(rng.choice([2, 3, 4])):
            iris.append(rng.choice(nss) + rng.choice(locs))
        if rng.random() < 0.3:
            iris.append(rng.choice(nss))  # an IRI that is itself a namespace
        if rare and rng.random() < 0.25:
            iris.append(XMLNS + rng.choice(["lang", "a" + XMLNS + "b", ""]))
        ops = []
        n = rng.choice([2, 3, 4, 5, 6, 8, 10, 12])
        for _ in range(n):
            r = rng.random()
            u = rng.choice(iris)
            if r < 0.40:
                fl = rng.choice([(True, False), (True, False), (False, False), (False, True), (True, True)])
                ops.append(["bind", rng.choice(pfx), rng.choice(nss), fl[0], fl[1], rng.random() < 0.5])
            elif r < 0.60:
                ops.append(["qname", u, rng.random() < 0.3])
            elif r < 0.68:
                ops.append(["curie", u, rng.random() < 0.7])
            elif r < 0.75:
                ops.append(["compute", u, rng.random() < 0.6])
            elif r < 0.83:
                ops.append(["strict", u, rng.random() < 0.7])
            elif r < 0.90:
                ops.append(["norm", u, rng.random() < 0.5])
            elif r < 0.96:
                p = rng.choice([x for x in pfx + ["ns1", "ns2"] if x is not None])
                ops.append(["expand", rng.choice([p + ":" + rng.choice(locs), rng.choice(locs), p + ":"])])
            else:
                ops.append(["reset"])
        r = rng.random()
        return {"store": "simple" if r < 0.15 else "external" if r < 0.27 else "memory", "ops": ops}

    # ------------------------------------------------------------ implementation
    def run_impl(self, case):
        store = SimpleMemory() if case["store"] == "simple" else Memory()
        g = Graph(store=store, bind_namespaces="none")
        if case["store"] == "external":
            # the documented sharing: g.namespace_manager = NamespaceManager(other_graph); the bindings live in
            # the other graph's store, g.bind / g.qname / g.namespaces() must all go there
            shared = NamespaceManager(g, bind_namespaces="none")
            g = Graph(bind_namespaces="none")
            g.namespace_manager = shared
        names = sorted({s for s in case_strings(case)})
        obs = []
        for op in case["ops"]:
            res = do_op(g, op)
            obs.append(snapshot(g, res, names))
        return obs

    def on_timeout(self, case):
        return [{"res": ["s", "!!timeout"], "list": [], "rev": [], "api": False}]

    def coq_case(self, case):
        cats = clist(ctuple(cN(c), cN(k)) for c, k in cat_table(case))
        return "{| c_cats := " + cats + "; c_ops := " + clist(c_op(o) for o in case["ops"]) + "; c_tag := 0%N |}"

    def coq_obs(self, obs):
        tab, body = pack_obs(obs)
        return f"(PackedD {tab} {body})"

    def nontrivial(self, case, obs):
        kinds = [o[0] for o in case["ops"]]
        return "bind" in kinds and any(k in kinds for k in ("qname", "curie", "compute", "strict", "norm"))

    def features(self, case, obs):
        f = {"ops_total": len(case["ops"]), "store_" + case["store"]: 1}
        for o, s in zip(case["ops"], obs):
            k = o[0]
            f["op_" + k] = f.get("op_" + k, 0) + 1
            f["res_" + s["res"][0]] = f.get("res_" + s["res"][0], 0) + 1
            if s["res"][0] == "exn":
                f["exn_" + s["res"][1]] = f.get("exn_" + s["res"][1], 0) + 1
            if k == "bind":
                f[f"bind_ov{int(o[3])}_rep{int(o[4])}"] = f.get(f"bind_ov{int(o[3])}_rep{int(o[4])}", 0) + 1
        gen = sum(1 for s in obs for p, _ in s["list"] if p.startswith("ns") and p[2:].isdigit())
        f["snapshots_with_generated_prefix"] = int(gen > 0)
        # qname, rebinding, qname of the same IRI: the interleaving fixed tests do not walk
        seen, reb = set(), set()
        for o in case["ops"]:
            if o[0] in ("qname", "curie", "compute", "strict", "norm"):
                if o[1] in reb:
                    f["requery_after_bind"] = 1
                seen.add(o[1])
            elif o[0] == "bind":
                reb |= seen
        return f

    def shrink(self, case):
        ops = case["ops"]
        for i in range(len(ops)):
            yield dict(case, ops=ops[:i] + ops[i + 1:])
        for i, o in enumerate(ops):
            if o[0] == "bind" and o[5]:
                yield dict(case, ops=ops[:i] + [o[:5] + [False]] + ops[i + 1:])

    def sweep(self):
        """all histories of length <= 3 (+ a final qname of each IRI) over 2 prefixes x 2 nested namespaces,
        every flag combination"""
        import itertools
        nss = ["h:e/", "h:e/a#"]
        iris = ["h:e/a#x", "h:e/b"]
        alphabet = []
        for p in ["a", ""]:
            for n in nss:
                for ov in (True, False):
                    for rep in (True, False):
                        alphabet.append(["bind", p, n, ov, rep, False])
        for u in iris:
            alphabet.append(["qname", u, False])
        alphabet.append(["bind", "b", "h:e/a#", True, False, False])
        alphabet.append(["strict", "h:e/a#x", True])
        for k in (1, 2, 3):
            for seq in itertools.product(alphabet, repeat=k):
                yield {"store": "memory", "ops": [list(o) for o in seq] + [["qname", u, False] for u in iris]}


# ------------------------------------------------------------------ conformance
DOCS = {
    "t1": ("turtle", "@prefix a: <h:e/> . @prefix b: <h:e/a#> . a:x b:y a:z ."),
    "t2": ("turtle", "@prefix a: <h:e/a#> . @prefix : <h:e/> . :x a:y :z ."),
    "t3": ("turtle", "@prefix ns1: <u:x:> . ns1:a ns1:b ns1:c ."),
    "t4": ("turtle", "PREFIX rdf: <h:e/>\nPREFIX owl: <h:e/a/>\nrdf:x owl:y rdf:z ."),
    "t5": ("turtle", "@prefix a: <h:e/a/b/> . @prefix a1: <h:e/a/> . a:x a1:y <h:e/ab> ."),
    "n1": ("n3", "@prefix : <u:x:y:> . @prefix b: <h:e/> . :x b:y :z ."),
    "x1": ("xml", '<rdf:RDF xmlns:rdf="http://www.w3.org/1999/02/22-rdf-syntax-ns#" xmlns:a="h:e/a/" '
                  'xmlns:ns2="h:e/"><rdf:Description rdf:about="h:e/s"><a:p rdf:resource="h:e/o"/>'
                  '<ns2:q>v</ns2:q></rdf:Description></rdf:RDF>'),
    "g1": ("trig", "@prefix a: <h:e#> . a:g { a:x a:y a:z . }"),
    "j1": ("json-ld", '{"@context": {"b": "h:e/a#", "c": "u:x:"}, "@id": "h:e/s", "b:p": {"@id": "c:o"}}'),
}
# the prefix directives of the Turtle-family documents above, in document order
DOC_DECLS = {
    "t1": [["a", "h:e/"], ["b", "h:e/a#"]], "t2": [["a", "h:e/a#"], ["", "h:e/"]], "t3": [["ns1", "u:x:"]],
    "t4": [["rdf", "h:e/"], ["owl", "h:e/a/"]], "t5": [["a", "h:e/a/b/"], ["a1", "h:e/a/"]],
    "n1": [["", "u:x:y:"], ["b", "h:e/"]], "g1": [["a", "h:e#"]],
}


def conf_op(op):
    """Coq operation of a conformance step: Turtle-family parses are the modelled OParse"""
    if op[0] == "parse" and op[1] in DOC_DECLS:
        return c_op(["parseN", DOC_DECLS[op[1]]])
    if op[0] in ("parse", "ser", "add"):
        return "OOther"
    return c_op(op)


CONF_IRIS = ["h:e/x", "h:e/a#y", "h:e/a/b/x", "h:e/ab", "u:x:y:z", "u:x:a", "h:e#x", "h:e/a/y", "h:e/s",
             "http://www.w3.org/1999/02/22-rdf-syntax-ns#type", "http://www.w3.org/2002/07/owl#Class",
             "http://www.w3.org/2001/XMLSchema#integer", "http://xmlns.com/foaf/0.1/name", "h:e/a/1", "h:e/_u"]
SER_FORMATS = ["turtle", "xml", "pretty-xml", "n3", "longturtle", "nt", "json-ld", "trig"]


class C17Conf(Suite):
    """No model: rdflib alone (default prefix sets, parse, serialize, add) against the verified
    per-step checker.  After every step every IRI of the case is asked with
    compute_qname(u, generate=False)."""

    name = "nsconform"
    imports = "From RV Require Import Namespace.Model."
    case_ty = "case"
    obs_ty = "dobs"
    model = "confd_model"
    oeq = "confd_eqb"
    spec = "confd_spec"
    corr = "Graph.bind/parse/serialize, NamespaceManager with bind_namespaces=rdflib|core|none (conformance only)"
    quick_n = 40
    thorough_n = 2000
    timeout_s = 20.0

    # case = {"defaults": ..., "iris": [...], "ops": [...]}; ops as in C17 plus
    #   ["parse", doc] | ["ser", fmt] | ["add", s, p, o]
    def gen(self, rng, i):
        iris = rng.sample(CONF_IRIS, rng.choice([2, 3, 4]))
        nss = rng.sample(NAMESPACES, 3) + rng.sample(
            ["http://www.w3.org/2002/07/owl#", "http://xmlns.com/foaf/0.1/", "http://www.w3.org/1999/02/22-rdf-syntax-ns#"], 1)
        pfx = rng.sample(["a", "b", "", None, "ns1", "ns2", "rdf", "owl", "foaf", "default1", "_g"], 4)
        ops = []
        for _ in range(rng.choice([2, 3, 4, 5, 6])):
            r = rng.random()
            u = rng.choice(iris)
            if r < 0.25:
                fl = rng.choice([(True, False), (True, False), (False, False), (True, True), (False, True)])
                ops.append(["bind", rng.choice(pfx), rng.choice(nss), fl[0], fl[1], True])
            elif r < 0.40:
                ops.append(["parse", rng.choice(sorted(DOCS))])
            elif r < 0.58:
                ops.append(["ser", rng.choice(SER_FORMATS)])
            elif r < 0.73:
                ops.append(["add", rng.choice(iris), rng.choice(iris), rng.choice(iris + ["lit"])])
            elif r < 0.83:
                ops.append(["qname", u, rng.random() < 0.5])
            elif r < 0.88:
                ops.append(["curie", u, True])
            elif r < 0.93:
                ops.append(["strict", u, True])
            elif r < 0.97:
                ops.append(["norm", u, True])
            else:
                ops.append(["reset"])
        return {"defaults": rng.choice(["rdflib", "rdflib", "core", "none"]), "iris": iris, "ops": ops}

    def expanded_ops(self, case):
        out = []
        for op in case["ops"]:
            out.append(op)
            out.extend(["compute", u, False] for u in case["iris"])
        return out

    def run_impl(self, case):
        g = Graph(bind_namespaces=case["defaults"])
        g.namespace_manager  # created lazily: the default prefixes are bound here
        names = sorted(set(case["iris"]) | {s for s in case_strings(case) if s in NAMESPACES or s in PREFIXES})
        obs = []
        for op in case["ops"]:
            k = op[0]
            if k == "parse":
                fmt, data = DOCS[op[1]]
                try:
                    g.parse(data=data, format=fmt)
                    res = ["unit"]
                except Exception as e:  # noqa: BLE001
                    res = ["exn", "ValueError" if not isinstance(e, KeyError) else "KeyError"]
            elif k == "ser":
                try:
                    g.serialize(format=op[1])
                    res = ["unit"]
                except Exception as e:  # noqa: BLE001
                    res = ["exn", "ValueError" if not isinstance(e, KeyError) else "KeyError"]
            elif k == "add":
                o = Literal("v") if op[3] == "lit" else URIRef(op[3])
                g.add((URIRef(op[1]), URIRef(op[2]), o))
                res = ["unit"]
            else:
                res = do_op(g, op)
            obs.append(snapshot(g, res, names))
            for u in case["iris"]:
                obs.append(snapshot(g, do_op(g, ["compute", u, False]), ()))
        return obs

    def on_timeout(self, case):
        return [{"res": ["s", "!!timeout"], "list": [], "rev": [], "api": False}]

    def coq_case(self, case):
        ops = [conf_op(op) for op in self.expanded_ops(case)]
        flat = [op for op in self.expanded_ops(case) if op[0] not in ("parse", "ser", "add")]
        cats = clist(ctuple(cN(c), cN(k)) for c, k in cat_table({"ops": flat}))
        return "{| c_cats := " + cats + "; c_ops := " + clist(ops) + "; c_tag := 0%N |}"

    def coq_obs(self, obs):
        tab, body = pack_obs(obs)
        return f"(PackedD {tab} {body})"

    def nontrivial(self, case, obs):
        kinds = {o[0] for o in case["ops"]}
        return bool(kinds & {"parse", "ser", "bind"})

    def features(self, case, obs):
        f = {"defaults_" + case["defaults"]: 1, "snapshots": len(obs)}
        for o in case["ops"]:
            k = o[0] + ("_" + o[1] if o[0] == "ser" else "")
            f["op_" + k] = f.get("op_" + k, 0) + 1
        f["answers"] = sum(1 for s in obs if s["res"][0] in ("t", "q"))
        return f

    def shrink(self, case):
        ops = case["ops"]
        for i in range(len(ops)):
            yield dict(case, ops=ops[:i] + ops[i + 1:])
        for i in range(len(case["iris"])):
            if len(case["iris"]) > 1:
                yield dict(case, iris=case["iris"][:i] + case["iris"][i + 1:])


# ------------------------------------------------------------------ Dataset / ConjunctiveGraph + named graphs
GRAPH_IDS = ["h:g1", "h:g2"]


def make_root(kind, defaults):
    """a Dataset / ConjunctiveGraph over a fresh Memory store; defaults None = whatever the class does"""
    store = Memory()
    root = Dataset(store=store) if kind == "dataset" else ConjunctiveGraph(store=store)
    if defaults is not None:
        root.namespace_manager = NamespaceManager(root, bind_namespaces=defaults)
    root.namespace_manager  # created lazily otherwise
    return root


class Objs:
    """the graph objects of one store a history is routed through: index 0 is the root, the
    others are named graphs obtained from it (kind: graph | get_context | contexts | fresh | dc)"""

    def __init__(self, root, specs):
        self.root = root
        self.specs = specs
        self.fixed = [root]
        for kind, ident in specs:
            u = URIRef(ident)
            if kind == "graph" and isinstance(root, Dataset):
                self.fixed.append(root.graph(u))
            elif kind == "contexts":
                root.get_context(u).add((URIRef("h:s"), URIRef("h:p"), URIRef("h:o")))
                self.fixed.append(next(c for c in root.contexts() if c.identifier == u))
            elif kind == "dc":
                self.fixed.append(root.default_context)
            elif kind == "fresh":
                self.fixed.append(None)
            else:
                self.fixed.append(root.get_context(u))

    def get(self, i):
        o = self.fixed[i]
        if o is None:  # a new object for the same named graph at every use
            o = self.root.get_context(URIRef(self.specs[i - 1][1]))
        return o

    def all(self):
        return [self.get(i) for i in range(len(self.fixed))]


class C17Dataset(Suite):
    """One store, several graph objects (a Dataset/ConjunctiveGraph and named graphs obtained from
    it): every operation goes through one of them, after every step every IRI is asked through
    every object.  The objects share one NamespaceManager, so the model of one store + one
    manager applies; a named graph that came with a manager of its own would answer from a
    cache the other objects' binds do not empty."""

    name = "nsdataset"
    imports = "From RV Require Import Namespace.Model."
    case_ty = "case"
    obs_ty = "dobs"
    model = "d_model"
    oeq = "d_eqb"
    spec = "d_spec"
    corr = ("ConjunctiveGraph.get_context / Dataset.graph / contexts() hand the dataset's NamespaceManager to the named "
            "graph; Graph.bind/qname/parse through any of the objects")
    quick_n = 150
    thorough_n = 6000

    # case = {"root": "dataset"|"cg", "objs": [[kind, ident]...], "iris": [...], "ops": [op...], "via": [index...]}
    # ops as in C17 plus ["parse1", prefix, ns]: parse (through a named graph) of a Turtle document with that one @prefix
    def gen(self, rng, i):
        root = rng.choice(["dataset", "dataset", "cg"])
        kinds = ["graph", "get_context", "contexts", "fresh"] if root == "dataset" else ["get_context", "contexts", "fresh"]
        objs = [[rng.choice(kinds), g] for g in rng.sample(GRAPH_IDS, rng.choice([1, 1, 2]))]
        nss = rng.sample(NAMESPACES, 3)
        pfx = rng.sample(["a", "b", "", None, "_g", "ns1", "c"], 3)
        iris = [rng.choice(nss) + rng.choice(["x", "b", "1", "ab"]) for _ in range(rng.choice([1, 2]))]
        ops, via = [], []
        for _ in range(rng.choice([2, 3, 4, 5, 6])):
            r = rng.random()
            u = rng.choice(iris)
            v = rng.randrange(len(objs) + 1)
            if r < 0.40:
                fl = rng.choice([(True, False), (True, False), (False, False), (False, True), (True, True)])
                ops.append(["bind", rng.choice(pfx), rng.choice(nss), fl[0], fl[1], True])
            elif r < 0.52:
                ops.append(["parseN", gen_decls(rng, pfx, nss)])
                v = rng.randrange(1, len(objs) + 1)  # through the dataset object parse goes to default_context
            elif r < 0.75:
                ops.append(["qname", u, rng.random() < 0.5])
            elif r < 0.82:
                ops.append(["curie", u, True])
            elif r < 0.88:
                ops.append(["strict", u, True])
            elif r < 0.94:
                ops.append(["norm", u, True])
            else:
                ops.append(["reset"])
            via.append(v)
        return {"root": root, "objs": objs, "iris": sorted(set(iris)), "ops": ops, "via": via}

    def expanded_ops(self, case):
        out = []
        nobj = len(case["objs"]) + 1
        for op in case["ops"]:
            out.append(op)
            for _ in range(nobj):
                out.extend(["compute", u, False] for u in case["iris"])
        return out

    def run_impl(self, case):
        root = make_root(case["root"], "none")
        objs = Objs(root, case["objs"])
        names = sorted({x for x in case_strings(case)})
        obs = []
        for op, v in zip(case["ops"], case["via"]):
            o = objs.get(v)
            if op[0] in ("parse1", "parseN"):
                try:
                    o.parse(data=turtle_doc(op, len(obs)), format="turtle")
                    res = ["unit"]
                except Exception as e:  # noqa: BLE001
                    res = ["exn", type(e).__name__]
            else:
                res = do_op(o, op)
            obs.append(snapshot(root, res, names, objs.all()))
            for i in range(len(case["objs"]) + 1):
                for u in case["iris"]:
                    obs.append(snapshot(root, do_op(objs.get(i), ["compute", u, False]), (), ()))
        return obs

    def on_timeout(self, case):
        return [{"res": ["s", "!!timeout"], "list": [], "rev": [], "api": False}]

    def coq_case(self, case):
        ops = self.expanded_ops(case)
        cats = clist(ctuple(cN(c), cN(k)) for c, k in cat_table({"ops": ops}))
        return ("{| c_cats := " + cats + "; c_ops := " + clist(c_op(o) for o in ops)
                + "; c_tag := 0%N |}")

    def coq_obs(self, obs):
        tab, body = pack_obs(obs)
        return f"(PackedD {tab} {body})"

    def nontrivial(self, case, obs):
        # a binding change through one object and a question through another
        b = {v for o, v in zip(case["ops"], case["via"]) if o[0] in ("bind", "parse1", "parseN")}
        return bool(b) and (len(b) > 1 or len(case["objs"]) >= 1)

    def features(self, case, obs):
        f = {"root_" + case["root"]: 1, "snapshots": len(obs), "objects": len(case["objs"]) + 1}
        for k, _ in case["objs"]:
            f["obj_" + k] = f.get("obj_" + k, 0) + 1
        for o, v in zip(case["ops"], case["via"]):
            f["op_" + o[0] + ("_root" if v == 0 else "_named")] = f.get("op_" + o[0] + ("_root" if v == 0 else "_named"), 0) + 1
        return f

    def shrink(self, case):
        ops, via = case["ops"], case["via"]
        for i in range(len(ops)):
            yield dict(case, ops=ops[:i] + ops[i + 1:], via=via[:i] + via[i + 1:])
        if len(case["iris"]) > 1:
            for i in range(len(case["iris"])):
                yield dict(case, iris=case["iris"][:i] + case["iris"][i + 1:])
        if len(case["objs"]) > 1:
            for i in range(len(case["objs"])):
                keep = [j for j in range(len(case["objs"])) if j != i]
                ren = {0: 0}
                ren.update({j + 1: n + 1 for n, j in enumerate(keep)})
                if all(v in ren for v in via):
                    yield dict(case, objs=[case["objs"][j] for j in keep], via=[ren[v] for v in via])

    def sweep(self):
        import itertools
        alphabet = [(["bind", "a", "h:e/", True, False, True], 0), (["bind", "b", "h:e/", True, False, True], 1),
                    (["bind", "a", "h:e/a#", False, True, True], 1), (["parse1", "b", "h:e/"], 1),
                    (["qname", "h:e/x", True], 0), (["qname", "h:e/x", True], 1), (["reset"], 1)]
        for kind in ("get_context", "fresh"):
            for n in (2, 3):
                for seq in itertools.product(alphabet, repeat=n):
                    yield {"root": "dataset", "objs": [[kind, "h:g1"]], "iris": ["h:e/x"],
                           "ops": [list(o) for o, _ in seq], "via": [v for _, v in seq]}


class C17DsConf(C17Conf):
    """No model: a Dataset / ConjunctiveGraph with its default prefixes, named graphs and the
    default_context object; bind, parse, serialize, add through any of them; every IRI asked through
    every object after each step; the verified per-step checker on every snapshot."""

    name = "nsdsconform"
    spec = "confd_spec_t"
    corr = "Dataset/ConjunctiveGraph.parse/serialize/bind, get_context, default_context (conformance only)"
    quick_n = 30
    thorough_n = 1500

    # case = {"root", "defaults": None|"none"|"core", "objs", "iris", "ops", "via"}
    def gen(self, rng, i):
        root = rng.choice(["dataset", "dataset", "cg"])
        kinds = ["graph", "get_context", "fresh", "contexts"] if root == "dataset" else ["get_context", "fresh", "contexts"]
        objs = [[rng.choice(kinds), g] for g in rng.sample(GRAPH_IDS, rng.choice([1, 2]))]
        if rng.random() < 0.12:
            objs[-1] = ["dc", "dc"]
        iris = rng.sample(CONF_IRIS, rng.choice([1, 2]))
        nss = rng.sample(NAMESPACES, 2) + rng.sample(
            ["http://www.w3.org/2002/07/owl#", "http://xmlns.com/foaf/0.1/", "https://schema.org/"], 1)
        pfx = rng.sample(["a", "b", "", "ns1", "rdf", "owl", "sdo", "foaf", "_g"], 3)
        ops, via = [], []
        for _ in range(rng.choice([2, 3, 4, 5])):
            r = rng.random()
            v = rng.randrange(len(objs) + 1)
            if r < 0.30:
                fl = rng.choice([(True, False), (True, False), (False, False), (True, True), (False, True)])
                ops.append(["bind", rng.choice(pfx), rng.choice(nss), fl[0], fl[1], True])
            elif r < 0.45:
                ops.append(["parse", rng.choice(sorted(DOCS))])
                if rng.random() < 0.85:
                    v = rng.randrange(1, len(objs) + 1)
            elif r < 0.65:
                ops.append(["ser", rng.choice(SER_FORMATS)])
            elif r < 0.75:
                ops.append(["add", rng.choice(iris), rng.choice(iris), rng.choice(iris + ["lit"])])
            elif r < 0.90:
                ops.append(["qname", rng.choice(iris), True])
            elif r < 0.95:
                ops.append(["strict", rng.choice(iris), True])
            else:
                ops.append(["reset"])
            via.append(v)
        return {"root": root, "defaults": rng.choice([None, "none", "core"]), "objs": objs, "iris": iris,
                "ops": ops, "via": via}

    def tag(self, case):
        """F6e region: the history goes through ConjunctiveGraph.default_context - the object itself is one
        of the views, or something is parsed through the dataset object (which delegates to it)"""
        if any(k == "dc" for k, _ in case["objs"]):
            return 1
        return int(any(o[0] == "parse" and v == 0 for o, v in zip(case["ops"], case["via"])))

    def expanded_ops(self, case):
        out = []
        for op in case["ops"]:
            out.append(op)
            for _ in range(len(case["objs"]) + 1):
                out.extend(["compute", u, False] for u in case["iris"])
        return out

    def run_impl(self, case):
        root = make_root(case["root"], case["defaults"])
        objs = Objs(root, case["objs"])
        if any(k == "dc" for k, _ in case["objs"]):
            root.default_context.namespace_manager  # its own manager (F6e) comes into being here, not while observing
        names = sorted(set(case["iris"]) | {s for s in case_strings(case) if s in NAMESPACES})
        obs = []
        for op, v in zip(case["ops"], case["via"]):
            o = objs.get(v)
            k = op[0]
            try:
                if k == "parse":
                    fmt, data = DOCS[op[1]]
                    o.parse(data=data, format=fmt)
                    res = ["unit"]
                elif k == "ser":
                    o.serialize(format=op[1])
                    res = ["unit"]
                elif k == "add":
                    o.add((URIRef(op[1]), URIRef(op[2]), Literal("v") if op[3] == "lit" else URIRef(op[3])))
                    res = ["unit"]
                else:
                    res = do_op(o, op)
            except Exception as e:  # noqa: BLE001
                res = ["exn", "KeyError" if isinstance(e, KeyError) else "ValueError"]
            obs.append(snapshot(root, res, names, objs.all()))
            for i in range(len(case["objs"]) + 1):
                for u in case["iris"]:
                    obs.append(snapshot(root, do_op(objs.get(i), ["compute", u, False]), (), ()))
        return obs

    def coq_case(self, case):
        ops = [conf_op(op) for op in self.expanded_ops(case)]
        flat = [op for op in self.expanded_ops(case) if op[0] not in ("parse", "ser", "add")]
        cats = clist(ctuple(cN(c), cN(k)) for c, k in cat_table({"ops": flat}))
        return "{| c_cats := " + cats + "; c_ops := " + clist(ops) + "; c_tag := " + cN(self.tag(case)) + " |}"

    def features(self, case, obs):
        f = {"root_" + case["root"]: 1, "defaults_" + str(case["defaults"]): 1, "snapshots": len(obs),
             "in_F6e_region": self.tag(case)}
        for k, _ in case["objs"]:
            f["obj_" + k] = f.get("obj_" + k, 0) + 1
        for o, v in zip(case["ops"], case["via"]):
            k = "op_" + o[0] + ("_root" if v == 0 else "_named")
            f[k] = f.get(k, 0) + 1
        return f

    def shrink(self, case):
        ops, via = case["ops"], case["via"]
        for i in range(len(ops)):
            yield dict(case, ops=ops[:i] + ops[i + 1:], via=via[:i] + via[i + 1:])
        if len(case["iris"]) > 1:
            for i in range(len(case["iris"])):
                yield dict(case, iris=case["iris"][:i] + case["iris"][i + 1:])


class C17World(Suite):
    """Several NamespaceManagers over one store, modelled as they are: the dataset's manager (shared by
    the named graphs), the one ConjunctiveGraph.default_context builds for itself (also reached by
    Dataset.parse), a user's second Graph on the store.  Every operation goes through one object; managers
    come into being at explicit "create" steps.  Model: coq/Namespace/Model.v [world]."""

    name = "nsworld"
    imports = "From RV Require Import Namespace.Model Gen.Tables_nsdefaults."
    case_ty = "wcase"
    obs_ty = "dobs"
    model = "wd_model"
    oeq = "d_eqb"
    spec = "wd_spec"
    kf = "w_kf"
    kf_ids = {5: "F6e"}
    corr = ("NamespaceManager.__init__ (stock prefixes), Graph.namespace_manager (lazy, per object), "
            "ConjunctiveGraph.default_context / Dataset.parse, all NamespaceManager operations through any of "
            "several managers over one Memory store")
    quick_n = 50
    thorough_n = 2000

    STOCK = {"none": "[]", "core": "stock_core", "rdflib": "stock_rdflib"}
    # object kinds: shared with the root's manager: graph get_context fresh; own manager: dc (stock rdflib),
    # extra_none / extra_core (Graph(store=root.store, bind_namespaces=...))
    # case = {"root", "defaults": "none"|"core", "objs": [[kind, ident]], "iris", "ops", "via"}
    # ops: C17 ops | ["parse1", prefix, ns] | ["create"] (touch the object's namespace_manager)

    def gen(self, rng, i):
        root = rng.choice(["dataset", "dataset", "cg"])
        own = rng.choice([["dc"], ["dc"], ["extra_none"], ["extra_core"], ["dc", "extra_none"]])
        objs = [[k, k] for k in own]
        if rng.random() < 0.5:
            objs.append([rng.choice(["get_context", "fresh"] + (["graph"] if root == "dataset" else [])), "h:g1"])
        stock_ns = ["http://www.w3.org/2002/07/owl#", "http://xmlns.com/foaf/0.1/", "https://schema.org/"]
        nss = rng.sample(NAMESPACES, 2) + ([rng.choice(stock_ns)] if "dc" in own or rng.random() < 0.3 else [])
        pfx = rng.sample(["a", "b", "", None, "_g", "ns1", "owl", "sdo", "foaf"], 3)
        iris = sorted({rng.choice(nss) + rng.choice(["x", "b", "Class"]) for _ in range(rng.choice([1, 2]))})
        created = set()
        ops, via = [], []
        for _ in range(rng.choice([3, 4, 5, 6, 7])):
            v = rng.randrange(len(objs) + 1)
            if v > 0 and objs[v - 1][0] in ("dc", "extra_none", "extra_core") and v not in created:
                ops.append(["create"])
                via.append(v)
                created.add(v)
                continue
            r = rng.random()
            u = rng.choice(iris)
            if r < 0.35:
                fl = rng.choice([(True, False), (True, False), (False, False), (False, True), (True, True)])
                ops.append(["bind", rng.choice(pfx), rng.choice(nss), fl[0], fl[1], True])
            elif r < 0.50:
                ops.append(["parseN", gen_decls(rng, pfx, nss)])
            elif r < 0.80:
                ops.append(["qname", u, rng.random() < 0.5])
            elif r < 0.86:
                ops.append(["curie", u, True])
            elif r < 0.92:
                ops.append(["strict", u, True])
            elif r < 0.97:
                ops.append(["norm", u, True])
            else:
                ops.append(["reset"])
            via.append(v)
        return {"root": root, "defaults": rng.choice(["none", "none", "none", "core", "core", "rdflib"]), "objs": objs,
                "iris": iris, "ops": ops, "via": via}

    # ---- the flattened history: (kind, manager number or stock name, op)
    def plan(self, case):
        """steps: ("new", stock) | ("op", manager, op) | ("probe", manager, iri), and for the implementation
        which object each goes through"""
        kinds = [k for k, _ in case["objs"]]
        mgr_of = {0: 0}  # object index -> manager number
        for j, k in enumerate(kinds, 1):
            if k not in ("dc", "extra_none", "extra_core"):
                mgr_of[j] = 0
        stock_of = {"dc": "rdflib", "extra_none": "none", "extra_core": "core"}
        steps = [("new", case["defaults"], 0)]
        n_mgr = 1
        dc_obj = next((j for j, k in enumerate(kinds, 1) if k == "dc"), None)

        def probes():
            done = set()
            for j in sorted(mgr_of):
                if mgr_of[j] in done:
                    continue
                done.add(mgr_of[j])
                for u in case["iris"]:
                    steps.append(("probe", mgr_of[j], j, u))

        def create(j):
            nonlocal n_mgr
            mgr_of[j] = n_mgr
            n_mgr += 1
            steps.append(("new", stock_of[kinds[j - 1]], j))
            probes()

        probes()
        for op, v in zip(case["ops"], case["via"]):
            if op[0] == "create":
                if v not in mgr_of:
                    create(v)
                continue
            target = v
            if op[0] in ("parse1", "parseN") and v == 0:
                # Dataset.parse / ConjunctiveGraph.parse hand the document to self.default_context
                if dc_obj is None:
                    kinds.append("dc")
                    dc_obj = len(kinds)
                if dc_obj not in mgr_of:
                    create(dc_obj)
                target = dc_obj
            elif v not in mgr_of:
                create(v)
            steps.append(("op", mgr_of[target], v, op, op))
            probes()
        return steps

    def run_impl(self, case):
        root = make_root(case["root"], case["defaults"])
        objs = {0: root}
        for j, (kind, ident) in enumerate(case["objs"], 1):
            if kind == "dc":
                objs[j] = root.default_context
            elif kind in ("extra_none", "extra_core"):
                objs[j] = Graph(store=root.store, identifier=URIRef("h:extra"), bind_namespaces=kind[6:])
            elif kind == "graph" and isinstance(root, Dataset):
                objs[j] = root.graph(URIRef(ident))
            elif kind == "fresh":
                objs[j] = None
            else:
                objs[j] = root.get_context(URIRef(ident))
        objs[len(case["objs"]) + 1] = root.default_context  # the implicit target of root.parse

        def ob(j):
            return root.get_context(URIRef("h:g1")) if objs[j] is None else objs[j]

        live = [0] + [j for j, (k, _) in enumerate(case["objs"], 1) if k in ("graph", "get_context", "fresh")]
        names = sorted({x for x in case_strings(case)})
        obs = []
        for st in self.plan(case):
            if st[0] == "new":
                if st[2] != 0:
                    ob(st[2]).namespace_manager  # comes into being here
                    live.append(st[2])
                res = ["unit"]
            elif st[0] == "probe":
                res = do_op(ob(st[2]), ["compute", st[3], False])
            else:
                o, orig = st[3], st[4]
                if orig[0] in ("parse1", "parseN"):
                    try:
                        ob(st[2]).parse(data=turtle_doc(orig, len(obs)), format="turtle")
                        res = ["unit"]
                    except Exception as e:  # noqa: BLE001
                        res = ["exn", type(e).__name__]
                else:
                    res = do_op(ob(st[2]), o)
            obs.append(snapshot(root, res, names if st[0] == "op" else (), [ob(j) for j in live]))
        return obs

    def on_timeout(self, case):
        return [{"res": ["s", "!!timeout"], "list": [], "rev": [], "api": False}]

    def coq_case(self, case):
        steps = self.plan(case)
        ops = []
        flat = []
        for st in steps:
            if st[0] == "new":
                ops.append(f"WNew {self.STOCK[st[1]]}")
            elif st[0] == "probe":
                ops.append(f"WOp {cN(st[1])} (OCompute {cstr(st[3])} false)")
                flat.append(["compute", st[3], False])
            else:
                ops.append(f"WOp {cN(st[1])} ({c_op(st[3])})")
                flat.append(st[3])
        cats = clist(ctuple(cN(c), cN(k)) for c, k in cat_table({"ops": flat}))
        return "{| wc_cats := " + cats + "; wc_ops := " + clist(ops) + " |}"

    def coq_obs(self, obs):
        tab, body = pack_obs(obs)
        return f"(PackedD {tab} {body})"

    def nontrivial(self, case, obs):
        steps = self.plan(case)
        return len({st[1] for st in steps if st[0] == "op" and st[3][0] in ("bind", "parse1", "parseN")}) >= 1 and \
            sum(1 for st in steps if st[0] == "new") >= 2

    def features(self, case, obs):
        steps = self.plan(case)
        f = {"root_" + case["root"]: 1, "defaults_" + case["defaults"]: 1, "snapshots": len(obs),
             "managers": sum(1 for st in steps if st[0] == "new")}
        for k, _ in case["objs"]:
            f["obj_" + k] = f.get("obj_" + k, 0) + 1
        for st in steps:
            if st[0] == "op":
                k = "op_" + st[4][0] + ("_root_mgr" if st[1] == 0 else "_other_mgr")
                f[k] = f.get(k, 0) + 1
        f["parse_through_dataset"] = int(any(o[0] in ("parse1", "parseN") and v == 0 for o, v in zip(case["ops"], case["via"])))
        f["parse_directives"] = sum(len(parse_decls(o)) for o in case["ops"] if o[0] in ("parse1", "parseN"))
        f["parse_redeclares"] = sum(1 for o in case["ops"] if o[0] == "parseN"
                                    and len({d[0] for d in o[1]}) < len(o[1]))
        return f

    def shrink(self, case):
        ops, via = case["ops"], case["via"]
        for i in range(len(ops)):
            yield dict(case, ops=ops[:i] + ops[i + 1:], via=via[:i] + via[i + 1:])
        if len(case["iris"]) > 1:
            for i in range(len(case["iris"])):
                yield dict(case, iris=case["iris"][:i] + case["iris"][i + 1:])
        if case["defaults"] != "none":
            yield dict(case, defaults="none")


# ------------------------------------------------------------------ Turtle serialiser: prefixes
import io  # noqa: E402
import re  # noqa: E402

from rdflib.namespace import RDF  # noqa: E402
from rdflib.plugins.serializers.turtle import TurtleSerializer  # noqa: E402

SER_NS = ["h:e/", "h:e/a#", "h:f/", "u:x:", "h:e/a/", "h:e/ab"]
SER_PFX = ["a", "_g", "p_g", "pp_g", "_", "p_", "b", "", "ns1", "pns1"]
SER_LOCALS = ["x", "b", "y.", "(p)", "", "c", "ab"]
SER_DT = ["h:e/a#dt", "h:d/t", "u:x:dt"]


def ser_graph(case):
    g = Graph(bind_namespaces="none")
    for op in case["setup"]:
        do_op(g, op)
    for s_, p_, o_ in case["triples"]:
        o = Literal("v", datatype=URIRef(o_[1]) if o_[1] else None) if isinstance(o_, list) else URIRef(o_)
        g.add((URIRef(s_), RDF.type if p_ == "rdf:type" else URIRef(p_), o))
    return g


def ser_calls(g):
    """the getQName calls preprocess() makes for URIRef terms, in the store's triple order"""
    calls = []
    for s_, p_, o_ in g.triples((None, None, None)):
        calls.append([str(s_), False])
        if p_ != RDF.type:  # a keyword: never looked at
            calls.append([str(p_), True])
        if isinstance(o_, URIRef):
            calls.append([str(o_), False])
        elif isinstance(o_, Literal) and o_.datatype:
            calls.append([str(o_.datatype), False])
    return calls


class C17Serial(Suite):
    """TurtleSerializer: the preprocess pass (getQName for every term, generating prefixes for predicates),
    addNamespace with its '_' / clash rewriting, and the @prefix header, against coq/Namespace/SerModel.v."""

    name = "nsserial"
    imports = "From RV Require Import Namespace.SerModel."
    case_ty = "scase"
    obs_ty = "sobs"
    model = "ser_model"
    oeq = "sobs_eqb"
    spec = "ser_spec"
    corr = "TurtleSerializer.preprocess/preprocessTriple/getQName/addNamespace/startDocument, RecursiveSerializer.addNamespace"
    quick_n = 150
    thorough_n = 6000

    # case = {"setup": [bind ops], "triples": [[s, p, o | ["lit", dt|None]]], "calls": [[iri, gen]...]}
    def gen(self, rng, i):
        nss = rng.sample(SER_NS, rng.choice([2, 3, 4]))
        pfx = rng.sample(SER_PFX, rng.choice([2, 3, 4]))
        setup = []
        for _ in range(rng.choice([1, 2, 3, 4])):
            setup.append(["bind", rng.choice(pfx), rng.choice(nss), True, False, True])
        if rng.random() < 0.15:
            setup.append(["qname", rng.choice(nss) + "x", False])
        iri = lambda: rng.choice(SER_NS) + rng.choice(SER_LOCALS)  # noqa: E731
        triples = []
        for _ in range(rng.choice([1, 2, 3, 4])):
            r = rng.random()
            o = iri() if r < 0.6 else ["lit", rng.choice(SER_DT + [None])]
            triples.append([iri() or "h:e/x", "rdf:type" if rng.random() < 0.15 else (iri() or "h:e/p"), o])
        base = None
        if rng.random() < 0.35:
            base = rng.choice(["h:e/", "h:e/a", "h:f/", "u:x:"])
            if rng.random() < 0.5:  # a hash namespace directly below the base, used as predicate
                triples.append([iri() or "h:e/x", base + rng.choice(["v#p", "a#x", "v#", "p"]), iri() or "h:e/o"])
        case = {"setup": setup, "triples": triples, "base": base}
        case["calls"] = ser_calls(ser_graph(case))
        return case

    def run_impl(self, case):
        g = ser_graph(case)
        if ser_calls(g) != case["calls"]:
            return {"bad_order": True}
        ser = TurtleSerializer(g)
        log, phase, at_header = [], ["pre"], [None]
        orig, orig_sd = ser.getQName, ser.startDocument

        def unq(r):
            if r is None:
                return ["none"]
            p_, l_ = r.split(":", 1)
            return ["name", p_, l_.replace("\\(", "(").replace("\\)", ")")]

        def wrapped(uri, gen_prefix=True):
            try:
                r = orig(uri, gen_prefix)
            except Exception:
                log.append([phase[0], str(uri), ["raise"]])
                raise
            if isinstance(uri, URIRef):
                log.append([phase[0], str(uri), unq(r)])
            return r

        def sd():
            phase[0] = "body"
            at_header[0] = [[p_, str(n_)] for p_, n_ in ser.namespaces.items()]
            return orig_sd()

        ser.getQName, ser.startDocument = wrapped, sd
        out = io.BytesIO()
        try:
            ser.serialize(out, base=case.get("base"))
            text = out.getvalue().decode("utf-8")
            raised = False
        except Exception:  # noqa: BLE001
            text, raised = "", True
        header = [[m.group(1), m.group(2)] for m in re.finditer(r"^@prefix (\S*): <(.*)> \.$", text, re.M)]
        snap = snapshot(g, ["unit"], ())
        ns_end = [[p_, str(n_)] for p_, n_ in ser.namespaces.items()]
        return {"list": snap["list"], "rev": snap["rev"], "api": snap["api"] and (raised or at_header[0] == ns_end),
                "ns": ns_end, "rw": [[a_, b_] for a_, b_ in ser._ns_rewrite.items()],
                "log": [[u_, r_] for ph, u_, r_ in log if ph == "pre"], "header": header,
                "body": [[u_, r_] for ph, u_, r_ in log if ph == "body"]}

    def on_timeout(self, case):
        return {"bad_order": True}

    def coq_case(self, case):
        flat = [o for o in case["setup"]] + [["compute", u, g] for u, g in case["calls"]]
        cats = clist(ctuple(cN(c), cN(k)) for c, k in cat_table({"ops": flat}))
        return ("{| sc_cats := " + cats + "; sc_setup := " + clist(c_op(o) for o in case["setup"])
                + "; sc_base := " + copt(case.get("base"), cstr) + "; sc_calls := " + clist(ctuple(cstr(u), cbool(g)) for u, g in case["calls"]) + " |}")

    def coq_obs(self, obs):
        if obs.get("bad_order") or not obs.get("api", True):
            return ("{| so_list := [([33%N], [33%N]); ([33%N], [33%N])]; so_rev := []; so_ns := []; so_rw := []; "
                    "so_log := []; so_header := []; so_body := [] |}")

        def q(r):
            return "QRaise" if r[0] == "raise" else "QNone" if r[0] == "none" else f"(QName {cstr(r[1])} {cstr(r[2])})"

        def lg(l):
            return clist(ctuple(cstr(u), q(r)) for u, r in l)

        return ("{| so_list := " + c_pairs(obs["list"]) + "; so_rev := " + c_pairs(obs["rev"]) + "; so_ns := "
                + c_pairs(obs["ns"]) + "; so_rw := " + c_pairs(obs["rw"]) + "; so_log := " + lg(obs["log"])
                + "; so_header := " + c_pairs(obs["header"]) + "; so_body := " + lg(obs["body"]) + " |}")

    def nontrivial(self, case, obs):
        return bool(obs.get("ns"))

    def features(self, case, obs):
        f = {"triples": len(case["triples"]), "calls": len(case["calls"]), "with_base": int(bool(case.get("base")))}
        if obs.get("bad_order"):
            return f
        f["rewritten_prefixes"] = len(obs["rw"])
        f["generated"] = sum(1 for p_, _ in obs["ns"] if re.fullmatch(r"ns\d+", p_))
        f["raised"] = int(any(r[0] == "raise" for _, r in obs["log"]))
        f["names_pre"] = sum(1 for _, r in obs["log"] if r[0] == "name")
        f["names_body"] = sum(1 for _, r in obs["body"] if r[0] == "name")
        f["none_answers"] = sum(1 for _, r in obs["log"] if r[0] == "none")
        return f

    def shrink(self, case):
        for i in range(len(case["triples"])):
            c = {"setup": case["setup"], "triples": case["triples"][:i] + case["triples"][i + 1:], "base": case.get("base")}
            c["calls"] = ser_calls(ser_graph(c))
            yield c
        for i in range(len(case["setup"])):
            c = {"setup": case["setup"][:i] + case["setup"][i + 1:], "triples": case["triples"], "base": case.get("base")}
            c["calls"] = ser_calls(ser_graph(c))
            yield c


SUITES = [C17(), C17Conf(), C17Dataset(), C17World(), C17DsConf(), C17Serial()]


TRUSTED = [
    "Coq 8.16.1 kernel and standard library",
    "harness/c17.py: translation of cases/observations to Coq literals (string table + indices, decoded in Coq); reads "
    "Memory.__prefix and the serialiser's namespaces/_ns_rewrite through their attribute names; wraps the serialiser's "
    "getQName/startDocument on the instance to log calls",
    "unicodedata.category (the same function rdflib calls) supplies the character classes handed to the model",
    "harness/reflect_nsdefaults.py renders _NAMESPACE_PREFIXES_RDFLIB/_CORE from the tree under test on every run",
    "coq/Namespace/Model.v and SerModel.v are faithful transcriptions of the anchored Python (tied by the correspondence runs)",
]
ASSUMPTIONS = [
    "IRIs are passed to the manager as URIRef, prefixes and CURIEs as str (the qname cache and the tries key on the Python type too)",
    "the values of __strie alias nodes of __trie; the model looks the node up in the trie instead (find_sub); argued and exercised, not proved",
    "managers are modelled per store as they are (world model): the dataset and its named graphs share one, "
    "ConjunctiveGraph.default_context and a user's second Graph have their own; a manager comes into being at the first "
    "touch of .namespace_manager, which the harness makes an explicit step",
    "the serialiser's p-prefix loop is bounded by |table|+1 iterations (the two numbered-prefix loops are proved to end)",
    "a Turtle/N3/TriG parse is, for the bindings, the loop `for prefix, namespace in p._bindings.items(): graph.bind(prefix, "
    "namespace)` (model OParse); relative namespace IRIs in directives (joined with the base) are not generated",
    "the serialiser's preprocess sees the triples in the order Graph.triples((None, None, None)) yields them (read from the "
    "graph when the case is generated; PYTHONHASHSEED=0); the statements of the body are not modelled, only the names they use are checked",
]
RULE = ("parses in nsdataset/nsworld: Turtle documents with 1-3 @prefix/PREFIX directives (a prefix declared again, two prefixes for one namespace, the empty prefix) through any object; nsworld: 3-7 operations routed through 2-3 managers over one store (dataset, default_context, second Graph), every IRI asked through every manager after each step; nsserial: 1-4 bindings (prefixes _g p_g pp_g ns1 pns1 '' ...) and 1-4 triples over 6 nested namespaces; nsdataset: 2-6 operations routed through a Dataset/ConjunctiveGraph and 1-2 named graphs of it, every IRI asked "
        "through every object after each step; nsmanager: histories of 2-12 operations over 2-5 namespaces drawn from a nested/overlapping family and 2-5 prefixes "
        "(empty, None, generated-looking, '_'-prefixed); distinct by full case content; non-trivial = contains a bind "
        "and a qname-like call")
